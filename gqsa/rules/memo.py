"""memo.sound — result caches.

A function that answers from a container which outlives the call (a module-level dict / Weak*Dictionary, or a dict held in
`self.<attr>`) is only equivalent to the un-cached function if the key determines the result:

  R1 identity   a key that is an object's identity (Weak*Dictionary keyed by a parameter, `id(p)`) says nothing about the object's
                *content*: after an in-place edit the stale answer is returned;
  R2 coverage   every parameter the function reads must occur in the key;
  R3 projection a key built from attributes of a parameter (`p.table.tobytes()`) must cover every state field of the classes that
                have such an attribute (a tableau is table *and* sign vector);
  R4 self state a value cached in `self.<cache>` that is (or is computed from) another mutable field of the object is stale as soon
                as that field is changed through a different path; the key must contain it.

The rule inspects every such cache it finds in the given modules; none exists on today's tree, so every property that arms it also
carries a knock-out that introduces one.
"""
from __future__ import annotations

import ast
from typing import Dict, List, Optional, Set, Tuple

from ..core import AnalysisError, Module, Repo, call_attr, call_name, calls_in, get_kw, norm, parent, qualname, short
from ..report import Ctx

_DICT_CTORS = {"dict", "OrderedDict", "collections.OrderedDict", "defaultdict", "collections.defaultdict"}
_WEAK_CTORS = {"WeakKeyDictionary", "weakref.WeakKeyDictionary", "WeakValueDictionary", "weakref.WeakValueDictionary"}
_DECORATORS = {"lru_cache", "functools.lru_cache", "cache", "functools.cache", "cached_property", "functools.cached_property"}


def _container_kind(v: ast.AST) -> Optional[str]:
    if isinstance(v, ast.Dict) and not v.keys:
        return "dict"
    if isinstance(v, ast.Call):
        cn = call_name(v) or ""
        if cn in _DICT_CTORS and not v.args:
            return "dict"
        if cn in _WEAK_CTORS:
            return "weak"
    return None


def _module_containers(m: Module) -> Dict[str, str]:
    out = {}
    for st in m.tree.body:
        if isinstance(st, ast.Assign) and len(st.targets) == 1 and isinstance(st.targets[0], ast.Name):
            k = _container_kind(st.value)
            if k:
                out[st.targets[0].id] = k
    return out


def _self_containers(cls: ast.ClassDef) -> Dict[str, str]:
    out = {}
    for n in ast.walk(cls):
        if isinstance(n, ast.Assign) and len(n.targets) == 1 and isinstance(n.targets[0], ast.Attribute) and norm(n.targets[0].value) == "self":
            k = _container_kind(n.value)
            if k:
                out["self." + n.targets[0].attr] = k
    return out


def _class_state_fields(repo: Repo) -> Dict[str, Dict[str, Set[str]]]:
    """class name -> {public attribute/property name -> set of private state fields it exposes}; plus '*fields*' -> all state fields"""
    out: Dict[str, Dict[str, Set[str]]] = {}
    for name, cis in repo.classes.items():
        for ci in cis:
            fields: Set[str] = set()
            props: Dict[str, Set[str]] = {}
            for k in repo.mro(ci):
                for n in ast.walk(k.node):
                    if isinstance(n, ast.Assign):
                        for t in n.targets:
                            for x in ast.walk(t):
                                if isinstance(x, ast.Attribute) and norm(x.value) == "self":
                                    fields.add(x.attr)
                for st in k.node.body:
                    if isinstance(st, ast.FunctionDef) and any(isinstance(d, ast.Name) and d.id == "property" for d in st.decorator_list):
                        reads = {x.attr for x in ast.walk(st) if isinstance(x, ast.Attribute) and norm(x.value) == "self"}
                        props.setdefault(st.name, set()).update(reads)
            # close property -> fields through other properties
            changed = True
            while changed:
                changed = False
                for p, rs in props.items():
                    for r in list(rs):
                        if r in props and not props[r] <= rs:
                            rs |= props[r]
                            changed = True
            d = {p: {r for r in rs if r in fields} for p, rs in props.items()}
            for f in fields:
                d.setdefault(f, {f})
            d["*fields*"] = set(fields)
            out[ci.name] = d
    return out


def rule_memo_sound(ctx: Ctx, rels: List[str]) -> None:
    rels = _widen(ctx, rels)
    repo = ctx.repo
    found = 0
    scanned = 0
    state_fields = None
    for rel in rels:
        m = repo.module(rel)
        mod_c = _module_containers(m)
        for fn in [f for f in ast.walk(m.tree) if isinstance(f, (ast.FunctionDef, ast.AsyncFunctionDef))]:
            scanned += 1
            q = qualname(fn)
            # decorator caches
            for d in fn.decorator_list:
                dn = norm(d.func) if isinstance(d, ast.Call) else norm(d)
                if dn in _DECORATORS:
                    found += 1
                    ps = [a.arg for a in fn.args.posonlyargs + fn.args.args if a.arg not in ("self", "cls")]
                    reads_self = any(isinstance(x, ast.Attribute) and norm(x.value) == "self" for x in ast.walk(fn))
                    if reads_self or "property" in dn:
                        ctx.fail("memo.sound", m, fn, f"{q} is cached with @{dn} but reads fields of `self`, which are not part of the cache key: after the "
                                                      f"object is modified the stale result is returned", func=q, construct=f"{q}: @{dn} over mutable self state")
                    else:
                        ctx.ok("memo.sound", m, fn, what=f"{q}: @{dn} over its (hashable) arguments only")
            cls = parent(fn)
            while cls is not None and not isinstance(cls, ast.ClassDef):
                cls = parent(cls)
            containers = dict(mod_c)
            if isinstance(cls, ast.ClassDef):
                containers.update(_self_containers(cls))
            if not containers:
                continue
            params = [a.arg for a in fn.args.posonlyargs + fn.args.args + fn.args.kwonlyargs if a.arg not in ("self", "cls")]
            env: Dict[str, ast.AST] = {}
            for a in ast.walk(fn):
                if isinstance(a, ast.Assign) and len(a.targets) == 1 and isinstance(a.targets[0], ast.Name):
                    env.setdefault(a.targets[0].id, a.value)
            for cname, kind in containers.items():
                # lookups whose value can reach a return, and stores
                lookups: List[Tuple[ast.AST, ast.AST]] = []  # (node, key expr)
                stores: List[Tuple[ast.AST, ast.AST, ast.AST]] = []
                for n in ast.walk(fn):
                    if isinstance(n, ast.Subscript) and norm(n.value) == cname:
                        if isinstance(n.ctx, ast.Load):
                            lookups.append((n, n.slice))
                        elif isinstance(n.ctx, ast.Store) and isinstance(parent(n), ast.Assign):
                            stores.append((parent(n), n.slice, parent(n).value))
                    if isinstance(n, ast.Call) and isinstance(n.func, ast.Attribute) and norm(n.func.value) == cname and n.func.attr in ("get", "pop", "setdefault") and n.args:
                        lookups.append((n, n.args[0]))
                        if n.func.attr == "setdefault" and len(n.args) > 1:
                            stores.append((n, n.args[0], n.args[1]))
                if not lookups or not stores:
                    continue
                # does a looked-up value leave the function (returned, or assigned to an attribute of self)?
                def _flows_out(node: ast.AST) -> bool:
                    p = parent(node)
                    names = set()
                    while p is not None and not isinstance(p, ast.stmt):
                        p = parent(p)
                    if isinstance(p, ast.Return):
                        return True
                    if isinstance(p, ast.Assign):
                        for t in p.targets:
                            if isinstance(t, ast.Attribute) and norm(t.value) == "self":
                                return True
                            for x in ast.walk(t):
                                if isinstance(x, ast.Name):
                                    names.add(x.id)
                    if names:
                        for r in ast.walk(fn):
                            if isinstance(r, ast.Return) and r.value is not None and any(isinstance(x, ast.Name) and x.id in names for x in ast.walk(r.value)):
                                return True
                    return False
                if not any(_flows_out(n) for n, _ in lookups):
                    continue
                found += 1
                ctx.touch(m, fn)
                key = stores[0][1]
                kexpr = env.get(key.id, key) if isinstance(key, ast.Name) else key
                val = stores[0][2]
                problems: List[str] = []
                # R1 identity
                if kind == "weak":
                    problems.append(f"`{cname}` is a weak-keyed dictionary, i.e. keyed by the identity of `{short(kexpr, 40)}`, not by its content: after the "
                                    f"object is edited in place the stored answer for the old content is returned")
                if any(isinstance(c, ast.Call) and call_name(c) == "id" for c in ast.walk(kexpr)):
                    problems.append(f"the key `{short(kexpr, 50)}` uses id(...), the identity of a mutable object")
                # R2 coverage of parameters read by the function
                k_names = {x.id for x in ast.walk(kexpr) if isinstance(x, ast.Name)}
                for k2 in list(k_names):
                    if k2 in env:
                        k_names |= {x.id for x in ast.walk(env[k2]) if isinstance(x, ast.Name)}
                used = {x.id for x in ast.walk(fn) if isinstance(x, ast.Name) and isinstance(x.ctx, ast.Load)}
                missing = [p for p in params if p in used and p not in k_names]
                if missing and kind != "weak":
                    problems.append(f"the result depends on {missing}, which the key `{short(kexpr, 50)}` does not contain")
                # R3 projections
                projs: Dict[str, Set[str]] = {}
                whole: Set[str] = set()
                for x in ast.walk(kexpr if not isinstance(kexpr, ast.Name) else kexpr):
                    if isinstance(x, ast.Attribute):
                        b = x
                        chain = []
                        while isinstance(b, ast.Attribute):
                            chain.append(b.attr)
                            b = b.value
                        if isinstance(b, ast.Name) and b.id in params:
                            projs.setdefault(b.id, set()).add(chain[-1])
                for x in ast.walk(kexpr):
                    if isinstance(x, ast.Name) and x.id in params and not isinstance(parent(x), ast.Attribute):
                        whole.add(x.id)
                for p_, attrs in projs.items():
                    if p_ in whole:
                        continue
                    if state_fields is None:
                        state_fields = _class_state_fields(repo)
                    cands = [c for c, d in state_fields.items() if all(a in d for a in attrs)]
                    if not cands:
                        raise AnalysisError(f"{q}: cache key projects `{p_}` to {sorted(attrs)}; no class with these attributes found")
                    uncovered_all = []
                    for c in cands:
                        d = state_fields[c]
                        covered = set().union(*[d[a] for a in attrs])
                        unc = {f for f in d["*fields*"] if f not in covered and not f.startswith("__") and f not in ("_n_qubits", "n_qubits", "_shape", "shape")}
                        uncovered_all.append((c, unc))
                    if all(unc for _, unc in uncovered_all):
                        c0, u0 = min(uncovered_all, key=lambda t: len(t[1]))
                        problems.append(f"the key reads only {sorted(attrs)} of `{p_}`; a {c0} also consists of {sorted(u0)}, so two arguments that differ only "
                                        f"there share one cache entry")
                # R4 self state
                if cname.startswith("self."):
                    vexprs = [val] + ([env[val.id]] if isinstance(val, ast.Name) and val.id in env else [])
                    sfields = {norm(x) for v_ in vexprs for x in ast.walk(v_) if isinstance(x, ast.Attribute) and norm(x.value) == "self" and norm(x) != cname}
                    kfields = {norm(x) for x in ast.walk(kexpr) if isinstance(x, ast.Attribute) and norm(x.value) == "self"}
                    extra = sorted(f for f in sfields - kfields if not f.endswith(("_type", ".ops")))
                    if extra:
                        problems.append(f"the stored value is (computed from) {extra}, mutable state of the object that is not part of the key "
                                        f"`{short(kexpr, 40)}`: once that state is changed through another path (a gate applied to the held representation) "
                                        f"the remembered value no longer describes the object")
                # R4' invalidation: the function reads other fields of self; every method that changes one of them must reset the cache
                if cname.startswith("self.") and isinstance(cls, ast.ClassDef):
                    cattr = cname.split(".", 1)[1]
                    read_fields = set()
                    for x in ast.walk(fn):
                        if isinstance(x, ast.Attribute) and norm(x.value) == "self" and isinstance(x.ctx, ast.Load) and x.attr != cattr:
                            par = parent(x)
                            if isinstance(par, ast.Call) and par.func is x:
                                continue  # self.method(...)
                            read_fields.add(x.attr)
                    methods = {st.name: st for st in cls.body if isinstance(st, ast.FunctionDef)}
                    MUT = ("add_", "remove_", "clear", "update", "append", "pop", "insert", "extend", "discard", "setdefault", "relabel")

                    def mutates(f: ast.FunctionDef, field: str) -> bool:
                        for x in ast.walk(f):
                            if isinstance(x, (ast.Assign, ast.AugAssign, ast.Delete)):
                                tg = x.targets if not isinstance(x, ast.AugAssign) else [x.target]
                                for t in tg:
                                    b = t
                                    while isinstance(b, (ast.Subscript, ast.Attribute)) and not (isinstance(b, ast.Attribute) and norm(b.value) == "self"):
                                        b = b.value
                                    if isinstance(b, ast.Attribute) and norm(b.value) == "self" and b.attr == field and f.name != "__init__":
                                        return True
                            if isinstance(x, ast.Call) and isinstance(x.func, ast.Attribute) and x.func.attr.startswith(MUT):
                                b = x.func.value
                                while isinstance(b, (ast.Subscript, ast.Call)):
                                    b = b.value if isinstance(b, ast.Subscript) else b.func
                                    if isinstance(b, ast.Attribute) and norm(b.value) != "self":
                                        b = b.value
                                if isinstance(b, ast.Attribute) and norm(b.value) == "self" and b.attr == field:
                                    return True
                        return False

                    def resets(f: ast.FunctionDef, seen=None) -> bool:
                        seen = seen or set()
                        if f.name in seen:
                            return False
                        seen.add(f.name)
                        for x in ast.walk(f):
                            if isinstance(x, ast.Assign) and any(isinstance(t, ast.Attribute) and norm(t.value) == "self" and t.attr == cattr for t in x.targets):
                                return True
                            if isinstance(x, ast.Call) and isinstance(x.func, ast.Attribute) and x.func.attr in ("clear", "pop") and norm(x.func.value) == cname:
                                return True
                            if isinstance(x, ast.Call) and isinstance(x.func, ast.Attribute) and norm(x.func.value) == "self" and x.func.attr in methods \
                                    and resets(methods[x.func.attr], seen):
                                return True
                        return False
                    stale = []
                    for fld in sorted(read_fields):
                        for mn, mf in methods.items():
                            if mf is fn or mn == "__init__":
                                continue
                            if mutates(mf, fld) and not resets(mf):
                                stale.append(f"{mn} (changes self.{fld})")
                    if stale:
                        problems.append(f"the cached result is computed from self.{{{', '.join(sorted(read_fields))}}}, but {', '.join(stale[:4])} "
                                        f"{'do' if len(stale) > 1 else 'does'} not reset `{cname}`: after such an edit the depth remembered for the old "
                                        f"structure is returned")
                if problems:
                    ctx.fail("memo.sound", m, stores[0][0],
                             f"{q} answers from the cache `{cname}`: " + "; ".join(problems), func=q,
                             construct=f"{q}: cache {cname} key does not determine the result")
                else:
                    ctx.ok("memo.sound", m, stores[0][0], what=f"{q}: cache `{cname}` keyed by every input")
    if scanned == 0:
        raise AnalysisError("memo.sound: nothing scanned")
    if found == 0:
        ctx.ok_abstract("memo.sound", f"no result cache (module-level / self-held container answering a call, or caching decorator) in {len(rels)} module(s), "
                                      f"{scanned} functions scanned")


_ANCHOR_FILES: Dict[str, List[str]] = {}


def _widen(ctx: Ctx, rels: List[str]) -> List[str]:
    """The generic rules look at the modules a property module names plus every file the property's own anchors list."""
    import json
    import os
    if not _ANCHOR_FILES:
        here = os.path.dirname(os.path.dirname(os.path.dirname(os.path.abspath(__file__))))
        try:
            with open(os.path.join(here, "properties.jsonl"), encoding="utf-8") as fh:
                for line in fh:
                    if line.strip():
                        d = json.loads(line)
                        fs = list(d.get("anchors", {}).get("files", []))
                        for mm in d.get("anchors", {}).get("mechanism", []) + d.get("anchors", {}).get("state", []):
                            for part in mm.get("where", "").split(";"):
                                f_ = part.split(":", 1)[0].strip()
                                if f_.endswith(".py") and f_ not in fs:
                                    fs.append(f_)
                        _ANCHOR_FILES[d["id"]] = fs
        except OSError:
            pass
    out = list(rels)
    for f in _ANCHOR_FILES.get(getattr(ctx, "prop", ""), []):
        if f not in out and f in ctx.repo.by_rel:
            out.append(f)
    return out


# --------------------------------------------------------------------------- falsy.zero


def rule_falsy_zero(ctx: Ctx, rels: List[str]) -> None:
    """falsy.zero: `p or default` / `if not p:` on a parameter that is used as a number (an index, position, seed, count: it is
    compared, added, used as a subscript or handed to range/randint) treats the legitimate value 0 as "not given": position 0, seed 0
    and outcome 0 silently become the default.  (`p is None` is the test that means "not given".)"""
    rels = _widen(ctx, rels)
    repo = ctx.repo
    scanned = hits = 0
    for rel in rels:
        m = repo.module(rel)
        for fn in [f for f in ast.walk(m.tree) if isinstance(f, (ast.FunctionDef, ast.AsyncFunctionDef))]:
            scanned += 1
            params = {a.arg for a in fn.args.posonlyargs + fn.args.args + fn.args.kwonlyargs if a.arg not in ("self", "cls")}
            if not params:
                continue
            numeric: Set[str] = set()
            for x in ast.walk(fn):
                if isinstance(x, ast.BinOp) and isinstance(x.op, (ast.Add, ast.Sub, ast.Mult, ast.Mod, ast.FloorDiv)):
                    for s_ in (x.left, x.right):
                        if isinstance(s_, ast.Name) and s_.id in params:
                            other = x.right if s_ is x.left else x.left
                            if not isinstance(other, (ast.Constant,)) or isinstance(other.value, (int, float)):
                                if not (isinstance(other, ast.Constant) and isinstance(other.value, str)) and not isinstance(other, (ast.List, ast.JoinedStr)):
                                    numeric.add(s_.id)
                if isinstance(x, ast.Compare):
                    for s_ in [x.left] + list(x.comparators):
                        if isinstance(s_, ast.Name) and s_.id in params and any(isinstance(o, (ast.Lt, ast.LtE, ast.Gt, ast.GtE)) for o in x.ops):
                            numeric.add(s_.id)
                if isinstance(x, ast.Subscript):
                    for s_ in ast.walk(x.slice):
                        if isinstance(s_, ast.Name) and s_.id in params:
                            numeric.add(s_.id)
                if isinstance(x, ast.Call) and (call_name(x) or "").split(".")[-1] in ("range", "randint", "seed", "insert", "delete", "zeros", "eye", "RandomState", "default_rng"):
                    for a in x.args:
                        if isinstance(a, ast.Name) and a.id in params:
                            numeric.add(a.id)
            # a parameter whose name says it is a number
            numeric |= {p_ for p_ in params if any(k in p_ for k in ("position", "index", "seed", "_idx", "qubit", "register", "n_", "outcome", "determinism", "depth", "count"))
                        and not p_.endswith(("_type", "_list", "_types", "_map", "_mapping"))}
            for x in ast.walk(fn):
                bad = None
                if isinstance(x, ast.BoolOp) and isinstance(x.op, ast.Or) and isinstance(x.values[0], ast.Name) and x.values[0].id in numeric:
                    bad = (x, x.values[0].id)
                if isinstance(x, (ast.If, ast.IfExp)):
                    t = x.test
                    if isinstance(t, ast.UnaryOp) and isinstance(t.op, ast.Not) and isinstance(t.operand, ast.Name) and t.operand.id in numeric:
                        bad = (t, t.operand.id)
                    if isinstance(t, ast.Name) and t.id in numeric:
                        bad = (t, t.id)
                # any()/all() over a list of *indices* (result of a *_finder / np.nonzero / np.where): index 0 is falsy
                if isinstance(x, ast.Call) and call_name(x) in ("any", "all") and len(x.args) == 1:
                    idx_names = set()
                    for a_ in ast.walk(fn):
                        if isinstance(a_, ast.Assign) and isinstance(a_.value, ast.Call):
                            cn_ = (call_name(a_.value) or "").split(".")[-1]
                            if cn_.endswith("_finder") or cn_ in ("nonzero", "where", "argwhere", "flatnonzero"):
                                for t_ in a_.targets:
                                    for y_ in ast.walk(t_):
                                        if isinstance(y_, ast.Name):
                                            idx_names.add(y_.id)
                    used = {y_.id for y_ in ast.walk(x.args[0]) if isinstance(y_, ast.Name)}
                    if used and used <= idx_names:
                        bad = (x, "/".join(sorted(used)))
                if bad:
                    hits += 1
                    node, pn = bad
                    ctx.touch(m, fn)
                    ctx.fail("falsy.zero", m, node,
                             f"{qualname(fn)} tests the truthiness of its numeric parameter `{pn}` (`{short(node, 50)}`): the valid value 0 is treated as "
                             f"'not given' and replaced by the fallback", func=qualname(fn), construct=f"{qualname(fn)}: truthiness of numeric parameter {pn}")
    if scanned == 0:
        raise AnalysisError("falsy.zero: nothing scanned")
    if hits == 0:
        ctx.ok_abstract("falsy.zero", f"no truthiness test of a numeric parameter in {scanned} functions of {len(rels)} module(s)")


# --------------------------------------------------------------------------- arg.names-swapped


def rule_arg_names(ctx: Ctx, rels: List[str]) -> None:
    """arg.names-swapped: at a call of one of graphiq's own functions, two positional arguments that are plain names, each spelled
    exactly like one of the callee's parameters, are passed in each other's position (f(target, control) for def f(control, target)).
    Resolved by unique function name across the package; zero instances on today's tree."""
    rels = _widen(ctx, rels)
    repo = ctx.repo
    defs: Dict[str, List[Tuple[Module, ast.FunctionDef]]] = {}
    for m in repo.modules.values():
        for f in ast.walk(m.tree):
            if isinstance(f, ast.FunctionDef):
                defs.setdefault(f.name, []).append((m, f))
    sites = 0
    hits = 0
    for rel in rels:
        m = repo.module(rel)
        for fn in [f for f in ast.walk(m.tree) if isinstance(f, ast.FunctionDef)]:
            for c in [x for x in ast.walk(fn) if isinstance(x, ast.Call)]:
                name = call_attr(c) or (c.func.id if isinstance(c.func, ast.Name) else None)
                cands = defs.get(name, []) if name else []
                ctor = False
                if isinstance(c.func, ast.Name) and (c.func.id == "cls" or c.func.id in repo.classes):
                    # a constructor call: `cls(...)` inside a classmethod, or `ClassName(...)` -> that class's __init__
                    from ..core import enclosing_class as _ec
                    cn_ = _ec(fn).name if c.func.id == "cls" and _ec(fn) is not None else c.func.id
                    cis = repo.classes.get(cn_, [])
                    if len(cis) == 1:
                        lk = repo.lookup_method(cis[0], "__init__")
                        if lk is not None:
                            cands = [(lk[0].module, lk[1])]
                            name = f"{cn_}.__init__"
                            ctor = True
                if not cands:
                    continue
                sigs = {tuple(a.arg for a in f_.args.posonlyargs + f_.args.args) for _, f_ in cands}
                if len(sigs) != 1:
                    continue  # same name, different signatures: the callee is not determined without types
                cm, cf = cands[0]
                ps = [a.arg for a in cf.args.posonlyargs + cf.args.args]
                if ps and ps[0] in ("self", "cls") and (isinstance(c.func, ast.Attribute) or ctor):
                    ps = ps[1:]

                def _nm(a):
                    # how the argument is spelled: a plain name, the last attribute, or a string key (d["n_photons"])
                    if isinstance(a, ast.Name):
                        return a.id
                    if isinstance(a, ast.Attribute):
                        return a.attr
                    if isinstance(a, ast.Subscript) and isinstance(a.slice, ast.Constant) and isinstance(a.slice.value, str):
                        return a.slice.value
                    return None

                def _canon(t):
                    t = t.lower().lstrip("_")
                    return t[:-1] if t.endswith("s") and len(t) > 3 else t
                raw = [_nm(a) for a in c.args]
                pcanon = [_canon(p_) for p_ in ps]
                if len(set(pcanon)) != len(pcanon):
                    continue
                args = [ps[pcanon.index(_canon(a))] if a is not None and _canon(a) in pcanon else None for a in raw]
                sites += 1
                bad = [(i, a) for i, a in enumerate(args) if a is not None and a in ps and i < len(ps) and ps[i] != a
                       and ps.index(a) < len(args) and args[ps.index(a)] in ps and args[ps.index(a)] != a]
                # one argument spelled exactly like a *different* parameter of the callee, in a position whose own parameter name is not
                # passed anywhere else in the call (f(a, b, seed, 1000) for def f(a, b, trial_count, seed))
                if len(bad) < 2:
                    kw_names = {k.arg for k in c.keywords}
                    for i, a in enumerate(raw):
                        if a is None or i >= len(ps):
                            continue
                        ca = _canon(a)
                        if ca in pcanon and pcanon.index(ca) != i and ps[pcanon.index(ca)] not in kw_names and pcanon.index(ca) < len(c.args) \
                                and not (raw[pcanon.index(ca)] is not None and _canon(raw[pcanon.index(ca)]) == ca) and _canon(ps[i]) not in {_canon(r) for r in raw if r}:
                            hits += 1
                            ctx.touch(m, fn)
                            ctx.fail("arg.names-swapped", m, c,
                                     f"{qualname(fn)} calls `{short(c, 70)}`, but {name} is declared as ({', '.join(ps[:6])}): `{a}` is passed in the position of "
                                     f"`{ps[i]}`, and the position of `{ps[pcanon.index(ca)]}` receives `{short(c.args[pcanon.index(ca)], 30)}`", func=qualname(fn),
                                     construct=f"{qualname(fn)}: {name}() argument {a} in the position of {ps[i]}")
                            break
                if len(bad) >= 2:
                    hits += 1
                    ctx.touch(m, fn)
                    ctx.fail("arg.names-swapped", m, c,
                             f"{qualname(fn)} calls `{short(c, 70)}`, but {name} is declared as ({', '.join(ps[:6])}): the arguments {[a for _, a in bad]} "
                             f"are passed in each other's position", func=qualname(fn), construct=f"{qualname(fn)}: {name}() arguments {[a for _, a in bad]} swapped")
    if sites == 0:
        raise AnalysisError("arg.names-swapped: no resolvable call site")
    if hits == 0:
        ctx.ok_abstract("arg.names-swapped", f"{sites} resolved call sites, no pair of same-named arguments in each other's position")


# --------------------------------------------------------------------------- num.fixed-width


def _np_int_array(e: ast.AST, defs) -> bool:
    """an expression that is a numpy integer array whose length is not a small literal (np.arange(n), np.arange(n)[::-1], a local bound to one)"""
    for _ in range(3):
        if isinstance(e, ast.Name) and e.id in defs:
            e = defs[e.id]
    if isinstance(e, ast.Subscript):
        return _np_int_array(e.value, defs)
    if isinstance(e, ast.Call):
        cn = call_name(e) or ""
        if cn in ("np.arange", "numpy.arange"):
            if get_kw(e, "dtype") is not None and norm(get_kw(e, "dtype")) in ("object", "np.object_"):
                return False
            top = e.args[1] if len(e.args) > 1 else (e.args[0] if e.args else None)
            if isinstance(top, ast.Constant) and isinstance(top.value, int) and top.value <= 62:
                return False
            return True
        if call_attr(e) in ("astype", "copy", "flatten", "ravel", "reshape") and isinstance(e.func, ast.Attribute):
            if call_attr(e) == "astype" and e.args and norm(e.args[0]) in ("object", "np.object_"):
                return False
            return _np_int_array(e.func.value, defs)
    return False


def rule_fixed_width(ctx: Ctx, rels: List[str]) -> None:
    """num.fixed-width: `1 << np.arange(n)` / `2 ** np.arange(n)` / np.left_shift / np.power(2, ..) build powers of two in numpy's 64-bit
    integers; for n >= 64 (graph and register sizes are unbounded here) the entries wrap around silently, unlike Python integers.  Packing a
    row of bits into one machine integer is exact only below that width."""
    rels = _widen(ctx, rels)
    repo = ctx.repo
    scanned = hits = 0
    for rel in rels:
        m = repo.module(rel)
        for fn in [f for f in ast.walk(m.tree) if isinstance(f, (ast.FunctionDef, ast.AsyncFunctionDef))]:
            scanned += 1
            defs = {}
            for a in ast.walk(fn):
                if isinstance(a, ast.Assign) and len(a.targets) == 1 and isinstance(a.targets[0], ast.Name):
                    defs[a.targets[0].id] = a.value
            guarded = any(isinstance(t, (ast.Assert, ast.If)) and any(isinstance(c, ast.Constant) and c.value in (62, 63, 64) for c in ast.walk(t.test))
                          for t in ast.walk(fn) if isinstance(t, (ast.Assert, ast.If)))
            for x in ast.walk(fn):
                site = None
                if isinstance(x, ast.BinOp) and isinstance(x.op, ast.LShift) and _np_int_array(x.right, defs):
                    site = x
                elif isinstance(x, ast.BinOp) and isinstance(x.op, ast.Pow) and isinstance(x.left, ast.Constant) and isinstance(x.left.value, int) \
                        and x.left.value >= 2 and _np_int_array(x.right, defs):
                    site = x
                elif isinstance(x, ast.Call) and (call_name(x) or "") in ("np.left_shift", "np.power", "np.exp2") and x.args and _np_int_array(x.args[-1], defs):
                    site = x
                if site is None:
                    continue
                hits += 1
                ctx.touch(m, fn)
                if guarded:
                    ctx.ok("num.fixed-width", m, site, what="width guarded by an explicit bound")
                else:
                    ctx.fail("num.fixed-width", m, site,
                             f"`{short(site)}` builds powers of two in 64-bit numpy integers with no bound on the exponent: from 64 entries on they wrap "
                             f"around silently (negative / zero weights), so whatever is packed with them is wrong for large inputs only",
                             func=qualname(fn), construct=f"{qualname(fn)}: {short(site, 60)}")
    ctx.ok_abstract("num.fixed-width", f"{scanned} functions scanned, {hits} fixed-width power-of-two constructions")


# --------------------------------------------------------------------------- paste.incomplete


def _leaves(n: ast.AST):
    shape, out = [], []
    for x in ast.walk(n):
        shape.append(type(x).__name__)
        if isinstance(x, ast.Name):
            out.append(("n", x.id, x))
        elif isinstance(x, ast.Attribute):
            out.append(("a", x.attr, x))
        elif isinstance(x, ast.Constant):
            out.append(("c", repr(x.value), x))
        elif isinstance(x, ast.keyword):
            out.append(("k", x.arg or "", x))
    return shape, out


def _core(a: str, b: str):
    """minimal differing core of two strings: (u, v) with a = p+u+s, b = p+v+s"""
    i = 0
    while i < min(len(a), len(b)) and a[i] == b[i]:
        i += 1
    j = 0
    while j < min(len(a), len(b)) - i and a[len(a) - 1 - j] == b[len(b) - 1 - j]:
        j += 1
    return a[i:len(a) - j], b[i:len(b) - j]


def rule_paste_incomplete(ctx: Ctx, rels: List[str]) -> None:
    """paste.incomplete: two adjacent statements of identical shape that differ by one systematic renaming (control -> target, 1 -> 2,
    x -> z, ...) applied at two or more places, where one further occurrence of a renamed identifier was left as it was: the second
    statement still reads the first one's variable (the classic copy-and-adapt slip).  Only identifiers that are renamed elsewhere in the
    same pair count; a pair that simply shares an input is not reported."""
    rels = _widen(ctx, rels)
    repo = ctx.repo
    pairs = hits = 0
    for rel in rels:
        m = repo.module(rel)
        for node in ast.walk(m.tree):
            for field in ("body", "orelse", "finalbody"):
                blk = getattr(node, field, None)
                if not isinstance(blk, list):
                    continue
                for s1, s2 in zip(blk, blk[1:]):
                    if not isinstance(s1, (ast.Assign, ast.AugAssign, ast.Expr)) or type(s1) is not type(s2):
                        continue
                    sh1, l1 = _leaves(s1)
                    sh2, l2 = _leaves(s2)
                    if sh1 != sh2 or len(l1) != len(l2):
                        continue
                    diffs = [(a, b) for a, b in zip(l1, l2) if (a[0], a[1]) != (b[0], b[1])]
                    if len(diffs) < 2:
                        continue
                    pairs += 1
                    cores = {}
                    for a, b in diffs:
                        u, v = _core(a[1].strip("'\""), b[1].strip("'\""))
                        if u and v:
                            cores.setdefault((u, v), []).append((a, b))
                    for (u, v), ds in cores.items():
                        if len(ds) < 2:
                            continue
                        renamed = {a[1] for a, _ in ds if a[0] in "na"}
                        # an identifier that is renamed at one place and kept at another
                        for a, b in zip(l1, l2):
                            if a[0] in "na" and a[1] in renamed and b[1] == a[1] and u in a[1]:
                                fn = next((x for x in _anc_fn(s2)), None)
                                hits += 1
                                ctx.touch(m, fn)
                                ctx.fail("paste.incomplete", m, b[2],
                                         f"`{short(s2, 110)}` mirrors the statement before it with `{u}` -> `{v}` at {len(ds)} places, but still reads "
                                         f"`{a[1]}` where the pattern calls for `{a[1].replace(u, v)}`",
                                         func=qualname(fn) if fn is not None else "<module>",
                                         construct=f"{qualname(fn) if fn is not None else '<module>'}: `{a[1]}` left unrenamed in `{short(s2, 70)}`")
                                break
    ctx.ok_abstract("paste.incomplete", f"{pairs} adjacent same-shape statement pairs compared, {hits} with an identifier left unrenamed")


def _anc_fn(n):
    p = parent(n)
    while p is not None:
        if isinstance(p, (ast.FunctionDef, ast.AsyncFunctionDef)):
            yield p
        p = parent(p)


# --------------------------------------------------------------------------- index.negative-start


def rule_negative_start(ctx: Ctx, rels: List[str]) -> None:
    """index.negative-start: a position variable (an int, or a [row, column] pair) that starts at a negative literal and is then used, with
    its initial value, inside an array subscript: numpy does not raise for index -1, it silently reads the *last* row / column.  Each
    subscript that mentions the variable is folded with the initial values; a negative result is reported.  (A literal `a[-1]` is
    deliberate and is not looked at.)"""
    rels = _widen(ctx, rels)
    repo = ctx.repo
    scanned = hits = 0
    for rel in rels:
        m = repo.module(rel)
        for fn in [f for f in ast.walk(m.tree) if isinstance(f, (ast.FunctionDef, ast.AsyncFunctionDef))]:
            scanned += 1
            inits = {}
            for st in fn.body:
                if isinstance(st, ast.Assign) and len(st.targets) == 1 and isinstance(st.targets[0], ast.Name):
                    v = st.value
                    def num(e):
                        if isinstance(e, ast.Constant) and isinstance(e.value, int) and not isinstance(e.value, bool):
                            return e.value
                        if isinstance(e, ast.UnaryOp) and isinstance(e.op, ast.USub) and isinstance(e.operand, ast.Constant) and isinstance(e.operand.value, int):
                            return -e.operand.value
                        return None
                    if isinstance(v, (ast.List, ast.Tuple)) and v.elts and all(num(e) is not None for e in v.elts):
                        vals = [num(e) for e in v.elts]
                        if any(x < 0 for x in vals):
                            inits[st.targets[0].id] = (vals, st)
                    elif num(v) is not None and num(v) < 0:
                        inits[st.targets[0].id] = (num(v), st)
            if not inits:
                continue

            def fold(e):
                if isinstance(e, ast.Constant) and isinstance(e.value, int) and not isinstance(e.value, bool):
                    return e.value
                if isinstance(e, ast.Name) and e.id in inits and isinstance(inits[e.id][0], int):
                    return inits[e.id][0]
                if isinstance(e, ast.Subscript) and isinstance(e.value, ast.Name) and e.value.id in inits and isinstance(inits[e.value.id][0], list) \
                        and isinstance(e.slice, ast.Constant) and isinstance(e.slice.value, int) and -len(inits[e.value.id][0]) <= e.slice.value < len(inits[e.value.id][0]):
                    return inits[e.value.id][0][e.slice.value]
                if isinstance(e, ast.BinOp) and isinstance(e.op, (ast.Add, ast.Sub)):
                    a, b = fold(e.left), fold(e.right)
                    if a is None or b is None:
                        return None
                    return a + b if isinstance(e.op, ast.Add) else a - b
                return None
            for x in ast.walk(fn):
                if not isinstance(x, ast.Subscript) or (isinstance(x.value, ast.Name) and x.value.id in inits):
                    continue
                idx = x.slice.elts if isinstance(x.slice, ast.Tuple) else [x.slice]
                for i, e in enumerate(idx):
                    if isinstance(e, (ast.Constant, ast.UnaryOp, ast.Slice)):
                        continue
                    if not any(isinstance(y, ast.Name) and y.id in inits for y in ast.walk(e)):
                        continue
                    v = fold(e)
                    hits += 1
                    if v is not None and v < 0:
                        var = next(y.id for y in ast.walk(e) if isinstance(y, ast.Name) and y.id in inits)
                        ctx.touch(m, fn)
                        ctx.fail("index.negative-start", m, x,
                                 f"`{short(x)}`: with the initial value `{short(inits[var][1])}` the index `{short(e)}` is {v} on the first pass; numpy "
                                 f"wraps a negative index around to the end of axis {i} instead of failing, so the walk starts by reading the last "
                                 f"{'row' if i == 0 else 'column'}",
                                 func=qualname(fn), construct=f"{qualname(fn)}: {short(e, 40)} starts at {v}")
    ctx.ok_abstract("index.negative-start", f"{scanned} functions scanned, {hits} subscripts through a variable that starts negative")


# --------------------------------------------------------------------------- elim.no-pivot


def rule_elim_no_pivot(ctx: Ctx, rels: List[str]) -> None:
    """elim.no-pivot: Gaussian / Gauss-Jordan elimination that takes the diagonal entry M[k, k] as the pivot of column k and adds row k
    to other rows, without ever searching the column for a usable row and swapping it in.  That is only valid when every leading
    principal minor is non-zero; an invertible matrix with a zero on the (running) diagonal is then declared singular or divided by
    zero.  Reported when a loop over k uses M[k, k] / M[k] as pivot row, updates other rows from it, and contains no row exchange."""
    rels = _widen(ctx, rels)
    repo = ctx.repo
    scanned = hits = 0
    for rel in rels:
        m = repo.module(rel)
        for fn in [f for f in ast.walk(m.tree) if isinstance(f, (ast.FunctionDef, ast.AsyncFunctionDef))]:
            scanned += 1
            for lp in [l for l in ast.walk(fn) if isinstance(l, ast.For) and isinstance(l.target, ast.Name)]:
                k = lp.target.id
                diag = [x for x in ast.walk(lp) if isinstance(x, ast.Subscript) and isinstance(x.slice, ast.Tuple) and len(x.slice.elts) == 2
                        and all(isinstance(e, ast.Name) and e.id == k for e in x.slice.elts) and isinstance(x.ctx, ast.Load)]
                if not diag:
                    continue
                M = norm(diag[0].value)
                # row updates: M[r] = f(M[r], M[k]) for another loop variable r
                upd = []
                for a in ast.walk(lp):
                    if isinstance(a, (ast.Assign, ast.AugAssign)):
                        t = a.targets[0] if isinstance(a, ast.Assign) else a.target
                        if isinstance(t, ast.Subscript) and norm(t.value) == M and isinstance(t.slice, ast.Name) and t.slice.id != k:
                            uses_pivot_row = any(isinstance(y, ast.Subscript) and norm(y.value) == M and isinstance(y.slice, ast.Name) and y.slice.id == k
                                                 for y in ast.walk(a.value))
                            if uses_pivot_row:
                                upd.append(a)
                if not upd:
                    continue
                hits += 1
                # any row exchange inside the loop?
                swap = False
                for a in ast.walk(lp):
                    if isinstance(a, ast.Assign) and isinstance(a.targets[0], ast.Subscript) and norm(a.targets[0].value) == M \
                            and isinstance(a.targets[0].slice, (ast.List, ast.Tuple)) and isinstance(a.value, ast.Subscript) and isinstance(a.value.slice, (ast.List, ast.Tuple)):
                        swap = True
                    if isinstance(a, ast.Assign) and isinstance(a.targets[0], ast.Tuple) and isinstance(a.value, ast.Tuple) \
                            and [norm(x) for x in a.targets[0].elts] == [norm(x) for x in reversed(a.value.elts)]:
                        swap = True
                    if isinstance(a, ast.Call) and (call_attr(a) or getattr(a.func, "id", "")) in ("row_swap", "tab_row_swap", "swap_rows", "swaprows"):
                        swap = True
                ctx.touch(m, fn)
                if swap:
                    ctx.ok("elim.no-pivot", m, lp, what=f"{qualname(fn)}: elimination with row exchange")
                else:
                    ctx.fail("elim.no-pivot", m, diag[0],
                             f"{qualname(fn)} eliminates column `{k}` of `{M}` with the diagonal entry `{short(diag[0])}` as pivot and never exchanges rows: "
                             f"an invertible matrix whose running diagonal hits a zero (a pivot-free column before a pivot column) is rejected as "
                             f"singular; elimination without pivoting needs all leading principal minors to be non-zero",
                             func=qualname(fn), construct=f"{qualname(fn)}: pivot {short(diag[0], 40)} without row exchange")
    ctx.ok_abstract("elim.no-pivot", f"{scanned} functions scanned, {hits} diagonal-pivot elimination loops")


# --------------------------------------------------------------------------- chain.subject-drift


def rule_subject_drift(ctx: Ctx, rels: List[str]) -> None:
    """chain.subject-drift: an if / elif chain that classifies one value with isinstance tests, where one arm tests a *different expression
    for the same thing*: a local `v` bound to `<something>.attr` in the other arms and `<other>.attr` (the un-converted original) in this
    one.  When the local was taken from a converted copy, the stray arm looks at the wrong object and the chain can fall through with
    nothing assigned."""
    rels = _widen(ctx, rels)
    repo = ctx.repo
    chains_seen = hits = 0
    for rel in rels:
        m = repo.module(rel)
        for fn in [f for f in ast.walk(m.tree) if isinstance(f, (ast.FunctionDef, ast.AsyncFunctionDef))]:
            defs: Dict[str, List[ast.AST]] = {}
            for a in ast.walk(fn):
                if isinstance(a, ast.Assign) and len(a.targets) == 1 and isinstance(a.targets[0], ast.Name):
                    defs.setdefault(a.targets[0].id, []).append(a.value)
            for head in [i for i in ast.walk(fn) if isinstance(i, ast.If)]:
                par = parent(head)
                if isinstance(par, ast.If) and par.orelse == [head]:
                    continue  # not the head of its chain
                arms, cur = [], head
                while True:
                    arms.append(cur)
                    if len(cur.orelse) == 1 and isinstance(cur.orelse[0], ast.If):
                        cur = cur.orelse[0]
                    else:
                        break
                subs = []
                for a in arms:
                    t = a.test
                    if isinstance(t, ast.Call) and isinstance(t.func, ast.Name) and t.func.id == "isinstance" and len(t.args) == 2:
                        subs.append((a, t.args[0]))
                if len(subs) < 2:
                    continue
                chains_seen += 1
                kinds = {}
                for a, e in subs:
                    kinds.setdefault(norm(e), []).append((a, e))
                if len(kinds) != 2:
                    continue
                (k1, l1), (k2, l2) = kinds.items()
                for (ka, la), (kb, lb) in (((k1, l1), (k2, l2)), ((k2, l2), (k1, l1))):
                    ea, eb = la[0][1], lb[0][1]
                    # ka is a local bound to X.attr, kb is Y.attr with the same attr
                    if isinstance(ea, ast.Name) and ea.id in defs and isinstance(eb, ast.Attribute):
                        srcs = [v for v in defs[ea.id] if isinstance(v, ast.Attribute) and v.attr == eb.attr]
                        if srcs and any(norm(v) != kb for v in srcs):
                            hits += 1
                            ctx.touch(m, fn)
                            ctx.fail("chain.subject-drift", m, lb[0][0].test,
                                     f"the chain classifies `{ka}` (bound to {sorted({norm(v) for v in srcs})}) but this arm tests `{kb}`: when `{ka}` comes from a "
                                     f"converted copy the two are different objects, the arm looks at the wrong one and the chain can fall through "
                                     f"without doing anything (a later use of what it was to assign raises UnboundLocalError)",
                                     func=qualname(fn), construct=f"{qualname(fn)}: isinstance chain tests both `{ka}` and `{kb}`")
    ctx.ok_abstract("chain.subject-drift", f"{chains_seen} isinstance chains examined, {hits} with a drifting subject")


# --------------------------------------------------------------------------- type.isinstance-on-class


# one named site where the dead branch is a defect of graphiq that breaks no clause of C01-C20 (see DESIGN.md section 9.3, #52)
ISINSTANCE_ADVISORY = {
    ("graphiq/solvers/solver_base.py", "SolverBase._identify_noise"):
        "the '<gate>_control' / '<gate>_target' keys of a solver's noise map are ignored, the gate gets no noise; the simulated state stays "
        "physical and backend-independent, so no clause of the property is broken (and honouring the keys makes graphiq's own "
        "alternate-circuit benchmarks intractable: 4 branches per noisy two-qubit gate)",
}


def rule_isinstance_on_class(ctx: Ctx, rels: List[str]) -> None:
    """type.isinstance-on-class: `isinstance(c, K)` where `c` holds a *class* (it was bound to `type(x)` / `x.__class__` on a path that
    reaches the test) asks whether the class object is an instance of K — always False for an ordinary class K; `issubclass(c, K)` is
    what is meant.  The branch guarded by such a test is dead, whatever it was supposed to handle falls through to the default."""
    rels = _widen(ctx, rels)
    repo = ctx.repo
    scanned = hits = 0
    for rel in rels:
        m = repo.module(rel)
        for fn in [f for f in ast.walk(m.tree) if isinstance(f, (ast.FunctionDef, ast.AsyncFunctionDef))]:
            scanned += 1
            classy = {}
            for a in ast.walk(fn):
                if isinstance(a, ast.Assign) and len(a.targets) == 1 and isinstance(a.targets[0], ast.Name):
                    v = a.value
                    if (isinstance(v, ast.Call) and isinstance(v.func, ast.Name) and v.func.id == "type" and len(v.args) == 1) or \
                            (isinstance(v, ast.Attribute) and v.attr == "__class__"):
                        classy.setdefault(a.targets[0].id, a)
            if not classy:
                continue
            for c in [x for x in ast.walk(fn) if isinstance(x, ast.Call) and isinstance(x.func, ast.Name) and x.func.id == "isinstance" and len(x.args) == 2]:
                subj, k = c.args
                if isinstance(subj, ast.Name) and subj.id in classy and c.lineno > classy[subj.id].lineno and norm(k) not in ("type", "(type,)"):
                    hits += 1
                    ctx.touch(m, fn)
                    adv = ISINSTANCE_ADVISORY.get((rel, qualname(fn)))
                    ctx.fail("type.isinstance-on-class", m, c,
                             f"`{short(c)}`: `{subj.id}` was re-bound to a class (`{short(classy[subj.id])}`, line {classy[subj.id].lineno}); a class object is not an "
                             f"instance of `{norm(k)}`, so this test is False for every operation class and the branch it guards is never taken "
                             f"(issubclass is meant)" + (f" — advisory: {adv}" if adv else ""), func=qualname(fn),
                             construct=f"{qualname(fn)}: isinstance({subj.id}, {norm(k)[:40]}) on a class", advisory=bool(adv))
    ctx.ok_abstract("type.isinstance-on-class", f"{scanned} functions scanned, {hits} isinstance tests on a name bound to a class")


# --------------------------------------------------------------------------- zip.pairing


def rule_zip_pairing(ctx: Ctx, rels: List[str]) -> None:
    """zip.pairing: two parallel sequences of one object (`op.q_registers` / `op.q_registers_type`: element i of one belongs to element i of
    the other) stay paired only if they are walked in the same order.  `zip(sorted(x.a), x.b)` (or one side reversed) re-orders one side
    and pairs element i of the sorted sequence with element i of the unsorted one — right only when the first was sorted already."""
    rels = _widen(ctx, rels)
    repo = ctx.repo
    scanned = hits = 0

    def strip(e):
        """(inner expression, re-ordered?)"""
        if isinstance(e, ast.Call) and isinstance(e.func, ast.Name) and e.func.id in ("sorted", "reversed") and e.args:
            return e.args[0], True
        if isinstance(e, ast.Subscript) and isinstance(e.slice, ast.Slice) and e.slice.step is not None and norm(e.slice.step) == "-1":
            return e.value, True
        if isinstance(e, ast.Call) and isinstance(e.func, ast.Name) and e.func.id in ("list", "tuple") and len(e.args) == 1:
            return strip(e.args[0])
        return e, False
    for rel in rels:
        m = repo.module(rel)
        for fn in [f for f in ast.walk(m.tree) if isinstance(f, (ast.FunctionDef, ast.AsyncFunctionDef))]:
            scanned += 1
            for z in [c for c in ast.walk(fn) if isinstance(c, ast.Call) and isinstance(c.func, ast.Name) and c.func.id == "zip" and len(c.args) >= 2]:
                parts = [strip(a) for a in z.args]
                attrs = [(norm(e.value), e.attr, ro) for e, ro in parts if isinstance(e, ast.Attribute)]
                if len(attrs) != len(parts):
                    continue
                bases = {b for b, _, _ in attrs}
                if len(bases) == 1 and len({a for _, a, _ in attrs}) > 1 and len({ro for _, _, ro in attrs}) > 1:
                    hits += 1
                    ctx.touch(m, fn)
                    ctx.fail("zip.pairing", m, z,
                             f"{qualname(fn)} zips `{short(z.args[0], 40)}` with `{short(z.args[1], 40)}`: the two are parallel sequences of `{sorted(bases)[0]}`, and only one of them "
                             f"is re-ordered, so element i of one is paired with element i of the other's *original* order (control index > target index: the "
                             f"register numbers and their types are crossed)", func=qualname(fn), construct=f"{qualname(fn)}: zip of a re-ordered and an unordered parallel sequence")
    ctx.ok_abstract("zip.pairing", f"{scanned} functions scanned, {hits} zips of parallel sequences with one side re-ordered")


# --------------------------------------------------------------------------- search.fallthrough


def _first_access(node, v: str):
    """'load' | 'store' | None: how the name v is first touched when `node` (a statement, an expression, or a list of statements) runs"""
    if isinstance(node, list):
        for st in node:
            r = _first_access(st, v)
            if r:
                return r
        return None
    if isinstance(node, ast.Name):
        if node.id == v:
            return "load" if isinstance(node.ctx, ast.Load) else "store"
        return None
    if isinstance(node, ast.Assign):
        return _first_access(node.value, v) or _first_access(node.targets, v)
    if isinstance(node, ast.AugAssign):
        return _first_access(node.value, v) or ("load" if any(isinstance(x, ast.Name) and x.id == v for x in ast.walk(node.target)) else None)
    if isinstance(node, (ast.For, ast.AsyncFor)):
        return _first_access(node.iter, v) or _first_access(node.target, v) or _first_access(node.body, v) or _first_access(node.orelse, v)
    if isinstance(node, ast.While):
        return _first_access(node.test, v) or _first_access(node.body, v) or _first_access(node.orelse, v)
    if isinstance(node, ast.If):
        r = _first_access(node.test, v)
        if r:
            return r
        a, b = _first_access(node.body, v), _first_access(node.orelse, v)
        if "load" in (a, b):
            return "load"
        return "store" if a == "store" and b == "store" else None
    if isinstance(node, (ast.ListComp, ast.SetComp, ast.GeneratorExp, ast.DictComp)):
        for g in node.generators:
            r = _first_access(g.iter, v)
            if r:
                return r
            if any(isinstance(x, ast.Name) and x.id == v for x in ast.walk(g.target)):
                return None     # the comprehension binds its own v
        return None
    if isinstance(node, (ast.FunctionDef, ast.AsyncFunctionDef, ast.Lambda, ast.ClassDef)):
        return None
    for ch in ast.iter_child_nodes(node):
        r = _first_access(ch, v)
        if r:
            return r
    return None


def rule_search_fallthrough(ctx: Ctx, rels: List[str]) -> None:
    """search.fallthrough: `for i in R: if P(i): break` followed by a read of `i` uses the loop variable as "the element found".  When
    nothing satisfies P the loop runs to its end and `i` is simply the last element — the same value as "found at the last element".
    A for-else, a flag, or a value bound inside the `if` tells the two cases apart; reading the bare loop variable does not."""
    rels = _widen(ctx, rels)
    repo = ctx.repo
    scanned = hits = 0
    for rel in rels:
        m = repo.module(rel)
        for fn in [f for f in ast.walk(m.tree) if isinstance(f, (ast.FunctionDef, ast.AsyncFunctionDef))]:
            scanned += 1
            for blk in ast.walk(fn):
                for name in ("body", "orelse", "finalbody"):
                    body = getattr(blk, name, None)
                    if not isinstance(body, list):
                        continue
                    for i, st in enumerate(body):
                        if not (isinstance(st, ast.For) and isinstance(st.target, ast.Name) and not st.orelse):
                            continue
                        brk = [x for x in ast.walk(st) if isinstance(x, ast.Break)]
                        if not brk:
                            continue
                        v = st.target.id
                        if _first_access(body[i + 1:], v) != "load":
                            continue
                        # the read is harmless when the loop is known to run to a break (while True-like searches are not `for` loops), so: report
                        hits += 1
                        ctx.touch(m, fn)
                        use = next(x for later in body[i + 1:] for x in ast.walk(later) if isinstance(x, ast.Name) and x.id == v and isinstance(x.ctx, ast.Load))
                        ctx.fail("search.fallthrough", m, use,
                                 f"{qualname(fn)} reads the loop variable `{v}` (line {use.lineno}) after the search loop `for {v} in {short(st.iter, 40)}` (line {st.lineno}) "
                                 f"that leaves by `break` when it finds what it looks for; when nothing is found the loop ends normally and `{v}` is just the last "
                                 f"element, which the code below cannot tell from a hit at the last element", func=qualname(fn),
                                 construct=f"{qualname(fn)}: loop variable `{v}` read after a search loop")
    ctx.ok_abstract("search.fallthrough", f"{scanned} functions scanned, {hits} reads of a search loop's variable after the loop")


# --------------------------------------------------------------------------- zip.truncation


def rule_zip_truncation(ctx: Ctx, rels: List[str]) -> None:
    """zip.truncation: an equality verdict computed by walking two sequences in lock step with `zip(A, B)` — `return False` inside the
    loop, `return True` (or falling through to one) after it — says "equal" when one sequence is a proper prefix of the other, because
    zip stops at the shorter one.  Accepted: `zip(..., strict=True)`, itertools.zip_longest, or an explicit comparison of the two
    lengths (of the same two sequences) in the function."""
    rels = _widen(ctx, rels)
    repo = ctx.repo
    scanned = hits = 0
    for rel in rels:
        m = repo.module(rel)
        for fn in [f for f in ast.walk(m.tree) if isinstance(f, (ast.FunctionDef, ast.AsyncFunctionDef))]:
            scanned += 1
            for lp in [l for l in ast.walk(fn) if isinstance(l, ast.For) and isinstance(l.iter, ast.Call) and isinstance(l.iter.func, ast.Name)
                       and l.iter.func.id == "zip" and len(l.iter.args) == 2]:
                verdict = any(isinstance(r, ast.Return) and isinstance(r.value, ast.Constant) and r.value.value is False for r in ast.walk(lp))
                if not verdict:
                    continue
                hits += 1
                ctx.touch(m, fn)
                strict = any(k.arg == "strict" and isinstance(k.value, ast.Constant) and k.value.value is True for k in lp.iter.keywords)
                a, b = norm(lp.iter.args[0]), norm(lp.iter.args[1])
                lens = [c for c in ast.walk(fn) if isinstance(c, ast.Compare) and len(c.ops) == 1 and isinstance(c.ops[0], (ast.Eq, ast.NotEq))
                        and all(isinstance(x, ast.Call) and call_name(x) == "len" for x in (c.left, c.comparators[0]))
                        and {norm(c.left.args[0]), norm(c.comparators[0].args[0])} == {a, b}]
                if strict or lens:
                    ctx.ok("zip.truncation", m, lp.iter, what="lengths compared / strict zip")
                else:
                    ctx.fail("zip.truncation", m, lp.iter,
                             f"{qualname(fn)} decides equality by walking `{short(lp.iter, 80)}`: zip stops at the shorter sequence, so when one is a proper "
                             f"prefix of the other no element ever differs and the verdict is 'equal' (no length comparison of the two, no strict=True)",
                             func=qualname(fn), construct=f"{qualname(fn)}: zip({a[:30]}, {b[:30]}) without length check")
    ctx.ok_abstract("zip.truncation", f"{scanned} functions scanned, {hits} lock-step equality walks over zip")
