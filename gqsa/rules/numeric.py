"""Numeric-shape rules with a structural soundness argument (DESIGN §3 G1–G4, G7)."""
from __future__ import annotations

import ast
from typing import Dict, Iterable, List, Optional, Set, Tuple

from .. import flow
from ..callgraph import CallGraph
from ..core import (AnalysisError, Module, Repo, call_attr, call_name, calls_in, dotted, func_params, get_kw, norm,
                    parent, qualname, short)
from ..report import Ctx

DMF = "graphiq/backends/density_matrix/functions.py"
DMS = "graphiq/backends/density_matrix/state.py"

CONJ = {"conjugate", "conj"}


def _is_conj_call(n: ast.AST) -> bool:
    return isinstance(n, ast.Call) and call_attr(n) in CONJ


def _rooted_in_int_array(e: ast.AST) -> bool:
    """Receiver chain rooted at np.arange / range (integer index arrays)."""
    cur = e
    while True:
        if isinstance(cur, ast.Call):
            if call_attr(cur) in ("arange", "range", "argsort", "nonzero"):
                return True
            cur = cur.func
        elif isinstance(cur, ast.Attribute):
            cur = cur.value
        elif isinstance(cur, ast.Subscript):
            cur = cur.value
        else:
            return False


def rule_adjoint(ctx: Ctx, rels: List[str]) -> None:
    """num.adjoint: a transpose of a possibly complex matrix must be composed with complex conjugation."""
    repo = ctx.repo
    n = 0
    for rel in rels:
        m = repo.module(rel)
        for node in ast.walk(m.tree):
            site = None
            inner = None
            if isinstance(node, ast.Attribute) and node.attr == "T" and isinstance(node.ctx, ast.Load):
                site, inner = node, node.value
            elif isinstance(node, ast.Call) and call_attr(node) == "transpose":
                if isinstance(node.func, ast.Attribute) and dotted(node.func.value) in ("np", "numpy"):
                    if len(node.args) == 1 and not node.keywords:
                        site, inner = node, node.args[0]
                elif isinstance(node.func, ast.Attribute) and not node.args and not node.keywords:
                    site, inner = node, node.func.value
            if site is None:
                continue
            n += 1
            fn = None
            for a in _anc(site):
                if isinstance(a, ast.FunctionDef):
                    fn = a
                    break
            ctx.touch(m, fn)
            if _rooted_in_int_array(inner):
                ctx.ok("num.adjoint", m, site, what="integer index array (exempt)")
                continue
            p = parent(site)
            conj = _is_conj_call(inner) or (isinstance(p, ast.Call) and call_attr(p) in CONJ and site in p.args) \
                or (isinstance(p, ast.Attribute) and p.attr in CONJ)
            if not conj and fn is not None:
                from ..core import deref
                # the conjugate may have been given a name first (`c = np.conjugate(k); np.transpose(c)`), or the transpose may be named and
                # conjugated in the next step (`t = k.T; np.conjugate(t)`)
                if isinstance(inner, ast.Name) and _is_conj_call(deref(fn, inner)):
                    conj = True
                elif isinstance(p, ast.Assign) and len(p.targets) == 1 and isinstance(p.targets[0], ast.Name):
                    t_ = p.targets[0].id
                    uses = [x for x in ast.walk(fn) if isinstance(x, ast.Name) and x.id == t_ and isinstance(x.ctx, ast.Load)]
                    if uses and all(isinstance(parent(u), ast.Call) and call_attr(parent(u)) in CONJ for u in uses):
                        conj = True
            if conj:
                ctx.ok("num.adjoint", m, site)
            else:
                ctx.fail("num.adjoint", m, site,
                         f"`{short(site)}` transposes a matrix that may be complex without conjugating it; every sibling in this "
                         f"module forms the adjoint as conjugate-transpose",
                         func=qualname(fn) if fn else "<module>",
                         construct=f"{short(enclosing(site))}")
    if n == 0:
        raise AnalysisError("num.adjoint: no transpose site found")


def _anc(n):
    p = parent(n)
    while p is not None:
        yield p
        p = parent(p)


def enclosing(n):
    cur = n
    while cur is not None and not isinstance(cur, ast.stmt):
        cur = parent(cur)
    return cur if cur is not None else n


# --------------------------------------------------------------------------- G2 einsum partial trace


def _join_comp(e: ast.AST) -> Optional[ast.ListComp]:
    """``"".join(<list/generator comprehension>)`` -> the comprehension."""
    if isinstance(e, ast.Call) and call_attr(e) == "join" and len(e.args) == 1 and isinstance(e.args[0], (ast.ListComp, ast.GeneratorExp)):
        return e.args[0]
    return None


def _concat_parts(e: ast.AST) -> List[ast.AST]:
    if isinstance(e, ast.BinOp) and isinstance(e.op, ast.Add):
        return _concat_parts(e.left) + _concat_parts(e.right)
    return [e]


def _alphabets(e: ast.AST) -> Set[str]:
    return {n.attr for n in ast.walk(e) if isinstance(n, ast.Attribute) and n.attr.startswith("ascii_")}


class _Seq:
    """abstract value of a subscript fragment: for positions i = 0..ndim-1 (ascending, or reversed), optionally filtered by membership in
    `keep`, the letter (case, index expression) emitted at position i — possibly different for kept and dropped positions"""

    def __init__(self, kept, dropped, filt=None, order="asc"):
        self.kept, self.dropped, self.filt, self.order = kept, dropped, filt, order  # letters: (case 'l'/'u', idx '<i>') or ('pop', case, order) or None

    def map_case(self, case):
        f = lambda x: (case, x[1]) if x and x[0] in ("l", "u") else x
        return _Seq(f(self.kept), f(self.dropped), self.filt, self.order)


def rule_einsum_trace(ctx: Ctx) -> None:
    """num.einsum-trace: the einsum subscript of partial_trace, read as a function of the axis position i: in the input, a dropped axis
    carries one and the same letter in the row half and the column half (so einsum traces it), a kept axis two different letters; the
    output lists the row letters of the kept axes, then their column letters (the other order returns the transposed = complex
    conjugated reduced state).  The fragments may be built with joins over comprehensions, string slices, .upper()/.lower(), named
    intermediate lists, concatenation or f-strings."""
    repo = ctx.repo
    m = repo.module(DMF)
    fn = repo.anchor(DMF, "partial_trace")
    ctx.touch(m, fn)
    es = [c for c in calls_in(fn) if call_attr(c) == "einsum"]
    traces = [c for c in calls_in(fn) if call_attr(c) == "trace" and get_kw(c, "axis1") is not None]
    if not es:
        if traces:
            ctx.ok("num.einsum-trace", m, traces[0], what="np.trace(axis1, axis2)")
            return
        raise AnalysisError("partial_trace: neither einsum nor np.trace(axis1, axis2) found")
    env: Dict[str, ast.AST] = {}
    for st in ast.walk(fn):
        if isinstance(st, ast.Assign) and len(st.targets) == 1 and isinstance(st.targets[0], ast.Name):
            env.setdefault(st.targets[0].id, st.value)
    keep = func_params(fn)[1]

    def membership(t: ast.AST, v: str) -> Optional[bool]:
        if isinstance(t, ast.UnaryOp) and isinstance(t.op, ast.Not):
            r = membership(t.operand, v)
            return None if r is None else not r
        if isinstance(t, ast.Compare) and len(t.ops) == 1 and isinstance(t.ops[0], (ast.In, ast.NotIn)) and norm(t.left) == v \
                and norm(t.comparators[0]) == keep:
            return isinstance(t.ops[0], ast.In)
        if isinstance(t, ast.Subscript) and isinstance(t.value, ast.Name) and norm(t.slice) == v and t.value.id in env:
            d = env[t.value.id]
            if isinstance(d, ast.Call) and call_name(d) in ("np.isin", "np.in1d") and len(d.args) >= 2 and norm(d.args[1]) == keep \
                    and isinstance(d.args[0], ast.Call) and call_name(d.args[0]) in ("np.arange", "range"):
                return True
        return None

    def letter(e: ast.AST, v: str, depth: int = 0):
        """letter emitted by element expression e at position v: ('l'|'u', '<i>') / ('pop', case, order) / None"""
        if depth > 5:
            return None
        if isinstance(e, ast.Call) and isinstance(e.func, ast.Attribute) and e.func.attr in ("upper", "lower") and not e.args:
            inner = letter(e.func.value, v, depth + 1)
            if inner and inner[0] in ("l", "u"):
                return ("u" if e.func.attr == "upper" else "l", inner[1])
            return None
        if isinstance(e, ast.Subscript):
            alpha = _alphabets(e.value)
            if isinstance(e.value, ast.Attribute) and len(alpha) == 1:
                import re as _re
                idx = "<i>" if norm(e.slice) == v else _re.sub(rf"\b{v}\b", "<i>", norm(e.slice))
                return ("l" if "lower" in next(iter(alpha)) else "u", idx)
            if isinstance(e.value, ast.Name) and norm(e.slice) == v:
                sq = seq_of(e.value, depth + 1)
                if sq is not None and sq.filt is None and sq.order == "asc" and sq.kept == sq.dropped:
                    return sq.kept
            return None
        if isinstance(e, ast.Call) and call_attr(e) == "pop" and isinstance(e.func.value, ast.Name):
            sq = seq_of(e.func.value, depth + 1)
            if sq is not None and sq.filt == "drop" and sq.dropped and sq.dropped[0] in ("l", "u"):
                first = bool(e.args) and norm(e.args[0]) == "0"
                return ("pop", sq.dropped[0], "same" if first else "reversed")
            return None
        return None

    def seq_of(e: ast.AST, depth: int = 0) -> Optional[_Seq]:
        if depth > 6:
            return None
        if isinstance(e, ast.Name) and e.id in env:
            return seq_of(env[e.id], depth + 1)
        if isinstance(e, ast.FormattedValue):
            return seq_of(e.value, depth + 1)
        if isinstance(e, ast.Call) and call_attr(e) == "join" and len(e.args) == 1:
            return seq_of(e.args[0], depth + 1)
        if isinstance(e, ast.Call) and isinstance(e.func, ast.Attribute) and e.func.attr in ("upper", "lower") and not e.args:
            sq = seq_of(e.func.value, depth + 1)
            return sq.map_case("u" if e.func.attr == "upper" else "l") if sq else None
        if isinstance(e, ast.Subscript) and isinstance(e.slice, ast.Slice) and isinstance(e.value, ast.Attribute) and len(_alphabets(e.value)) == 1 \
                and e.slice.lower is None and e.slice.step is None:
            c = "l" if "lower" in next(iter(_alphabets(e.value))) else "u"
            return _Seq((c, "<i>"), (c, "<i>"))
        if isinstance(e, ast.Subscript) and isinstance(e.slice, ast.Slice) and e.slice.lower is None and e.slice.upper is None \
                and e.slice.step is not None and norm(e.slice.step) == "-1":
            sq = seq_of(e.value, depth + 1)
            return _Seq(sq.kept, sq.dropped, sq.filt, "desc" if sq.order == "asc" else "asc") if sq else None
        if isinstance(e, (ast.ListComp, ast.GeneratorExp)) and len(e.generators) == 1 and isinstance(e.generators[0].target, ast.Name):
            g = e.generators[0]
            v = g.target.id
            order = "asc"
            it = g.iter
            if isinstance(it, ast.Call) and call_name(it) == "reversed" and it.args:
                it, order = it.args[0], "desc"
            if not (isinstance(it, ast.Call) and call_name(it) == "range" and len(it.args) == 1):
                return None
            filt = None
            if g.ifs:
                if len(g.ifs) != 1:
                    return None
                pol = membership(g.ifs[0], v)
                if pol is None:
                    return None
                filt = "keep" if pol else "drop"
            if isinstance(e.elt, ast.IfExp):
                pol = membership(e.elt.test, v)
                if pol is None:
                    return None
                k, d = (e.elt.body, e.elt.orelse) if pol else (e.elt.orelse, e.elt.body)
                return _Seq(letter(k, v), letter(d, v), filt, order)
            l = letter(e.elt, v)
            return _Seq(l, l, filt, order)
        return None

    def parts_of(e: ast.AST, d: int = 0) -> List[ast.AST]:
        if isinstance(e, ast.BinOp) and isinstance(e.op, ast.Add):
            return parts_of(e.left, d) + parts_of(e.right, d)
        if isinstance(e, ast.JoinedStr):
            out = []
            for v in e.values:
                out += parts_of(v, d)
            return out
        if isinstance(e, ast.Name) and e.id in env and d < 4 and isinstance(env[e.id], (ast.BinOp, ast.JoinedStr)):
            return parts_of(env[e.id], d + 1)
        return [e]

    parts = parts_of(es[0].args[0])
    flat: List[object] = []
    for p_ in parts:
        if isinstance(p_, ast.Constant) and isinstance(p_.value, str):
            txt = p_.value
            if "->" in txt:
                a_, b_ = txt.split("->", 1)
                if a_.strip() or b_.strip():
                    raise AnalysisError(f"partial_trace: literal letters `{txt}` in the einsum subscript are not analysed")
                flat.append("->")
            elif txt.strip():
                raise AnalysisError(f"partial_trace: literal letters `{txt}` in the einsum subscript are not analysed")
        else:
            sq = seq_of(p_)
            if sq is None or sq.kept is None or sq.dropped is None:
                raise AnalysisError(f"partial_trace: einsum subscript fragment `{short(p_, 60)}` not recognised")
            flat.append(sq)
    if flat.count("->") != 1:
        raise AnalysisError(f"partial_trace: einsum subscript shape not recognised: {short(es[0].args[0])}")
    k = flat.index("->")
    left, right = flat[:k], flat[k + 1:]
    if len(left) != 2 or any(not isinstance(x, _Seq) for x in left):
        raise AnalysisError("partial_trace: the einsum input subscript is not a row half followed by a column half")
    row, col = left
    if row.filt or col.filt or row.order != "asc" or col.order != "asc":
        raise AnalysisError("partial_trace: a filtered / reversed input half of the einsum subscript is not analysed")
    rk, rd, ck, cd = row.kept, row.dropped, col.kept, col.dropped
    if rk == rd and ck == cd and rk[0] in ("l", "u") and ck[0] in ("l", "u") and rk[0] != ck[0]:
        ctx.fail("num.einsum-trace", m, es[0],
                 "the einsum input subscript is the concatenation of two unconditional comprehensions over disjoint alphabets "
                 "(lowercase / uppercase), so no label is repeated and einsum can only *sum* the "
                 "dropped axes over all row/column pairs, never trace them (|++> keep one qubit gives the all-ones matrix)",
                 func="partial_trace", construct="partial_trace: einsum input subscript has no repeated label")
        return
    problems = []
    for nm, x in (("row", rd), ("column", cd)):
        if x[0] == "pop" and x[2] == "reversed":
            problems.append(f"the {nm} letters of the dropped axes are taken with .pop() from the end of a list built in ascending order, so with k dropped "
                            f"axes the j-th one's {nm} index is contracted with the (k+1-j)-th one's other index (a transposition of the traced part, "
                            f"not its trace) as soon as two or more qubits are traced out")
    norm_l = lambda x: (x[1], "<i>") if x[0] == "pop" else x
    if not problems:
        if norm_l(rd) != norm_l(cd):
            problems.append(f"a dropped axis gets row label {rd} and column label {cd}: the two are not the same letter, so the axis is not traced")
        if rk == ck or rk[0] not in ("l", "u") or ck[0] not in ("l", "u"):
            problems.append(f"a kept axis gets row label {rk} and column label {ck}: they must be two different letters indexed by the axis")
    if problems:
        ctx.fail("num.einsum-trace", m, es[0], "partial_trace: " + "; ".join(problems), func="partial_trace",
                 construct="partial_trace: einsum labels of dropped axes do not pair row i with column i")
        return
    ctx.ok("num.einsum-trace", m, es[0], what="every dropped axis i has one label in both halves, every kept axis two")
    # output: row letters of the kept axes, then their column letters, both in ascending axis order
    if len(right) == 2 and all(isinstance(x, _Seq) for x in right):
        o1, o2 = right
        fine = o1.filt == "keep" and o2.filt == "keep" and o1.order == "asc" and o2.order == "asc"
        if fine and o1.kept == rk and o2.kept == ck:
            ctx.ok("num.einsum-trace", m, es[0], what="output = kept row letters, then kept column letters")
        elif fine and o1.kept == ck and o2.kept == rk:
            ctx.fail("num.einsum-trace", m, es[0],
                     "partial_trace writes the output subscript as the kept *column* letters followed by the kept *row* letters: einsum then returns "
                     "the transpose of the reduced state, i.e. its complex conjugate — wrong for every state whose reduced matrix has imaginary parts "
                     "(|y+> comes back as |y->)", func="partial_trace", construct="partial_trace: einsum output subscript transposed")
        else:
            ctx.fail("num.einsum-trace", m, es[0],
                     f"partial_trace's einsum output subscript is not the kept row letters followed by the kept column letters in axis order "
                     f"(filters {o1.filt}/{o2.filt}, order {o1.order}/{o2.order}, letters {o1.kept}/{o2.kept})", func="partial_trace",
                     construct="partial_trace: einsum output subscript")
    else:
        raise AnalysisError("partial_trace: einsum output subscript is not two fragments (kept rows, kept columns)")


# --------------------------------------------------------------------------- G3 raise Warning on the value path

WARNING_CLASSES = {"Warning", "UserWarning", "RuntimeWarning", "DeprecationWarning", "FutureWarning"}


def rule_raise_warning(ctx: Ctx, roots: List[Tuple[str, str]]) -> None:
    """num.raise-warning: functions on the value path of the metric API do not `raise` a Warning class (that aborts the
    computation for valid inputs instead of warning)."""
    repo = ctx.repo
    cg = CallGraph(repo)
    keys = []
    for rel, q in roots:
        repo.anchor(rel, q)
        keys.append((rel, q))
    clo = cg.closure(keys, exact_only=True)
    n = 0
    for k in sorted(clo):
        fn = cg.funcs[k]
        m = cg.mod_of[k]
        ctx.touch(m, fn)
        n += 1
        bad = False
        for r in ast.walk(fn):
            if isinstance(r, ast.Raise) and r.exc is not None:
                e = r.exc.func if isinstance(r.exc, ast.Call) else r.exc
                if isinstance(e, ast.Name) and e.id in WARNING_CLASSES:
                    bad = True
                    guard = None
                    for a in _anc(r):
                        if isinstance(a, ast.If):
                            guard = a.test
                            break
                    ctx.fail("num.raise-warning", m, r,
                             f"`raise {e.id}` on the value path of {k[1]}: for inputs satisfying "
                             f"`{short(guard) if guard is not None else 'True'}` the function raises instead of returning its value",
                             func=k[1], construct=f"raise {e.id} guarded by {short(guard) if guard is not None else 'True'}")
        if not bad:
            ctx.ok_abstract("num.raise-warning", f"{k[0]}::{k[1]}: no Warning class raised")
    if n == 0:
        raise AnalysisError("num.raise-warning: empty closure")


# --------------------------------------------------------------------------- G4 GF(2) rounding of float inverses

FLOAT_SOURCES = {"inv", "det", "solve", "pinv"}
ROUNDERS = {"rint", "round", "around", "round_"}


def _float_tainted(e: ast.AST) -> bool:
    return any(isinstance(c, ast.Call) and call_attr(c) in FLOAT_SOURCES and "linalg" in (call_name(c) or "")
               for c in ast.walk(e))


def _rounded(e: ast.AST) -> bool:
    """every float source inside ``e`` sits under a rounding call before the mod-2 / int cast at the top."""
    for c in ast.walk(e):
        if isinstance(c, ast.Call) and call_attr(c) in FLOAT_SOURCES and "linalg" in (call_name(c) or ""):
            ok = False
            for a in _anc(c):
                if a is parent(e):
                    break
                if isinstance(a, ast.Call) and call_attr(a) in ROUNDERS:
                    ok = True
                    break
                if a is e:
                    break
            if not ok:
                return False
    return True


def gf2_sites(repo: Repo, rel: str) -> List[Tuple[ast.FunctionDef, ast.AST]]:
    """(function, expression) where a float inverse/determinant is reduced mod 2 or cast to int."""
    m = repo.module(rel)
    out = []
    for fn in m.functions():
        for n in ast.walk(fn):
            top = None
            if isinstance(n, ast.BinOp) and isinstance(n.op, ast.Mod) and isinstance(n.right, ast.Constant) and n.right.value == 2 \
                    and _float_tainted(n.left):
                top = n
            elif isinstance(n, ast.Call) and call_attr(n) == "astype" and isinstance(n.func, ast.Attribute) \
                    and _float_tainted(n.func.value) and not any(
                        isinstance(x, ast.BinOp) and isinstance(x.op, ast.Mod) and _float_tainted(x.left) for x in ast.walk(n.func.value)):
                top = n
            if top is not None:
                out.append((fn, top))
    # keep outermost sites only (an astype inside a flagged `% 2` is the same construct)
    keep = []
    for fn, t in out:
        if not any(t is not o and any(x is t for x in ast.walk(o)) for _, o in out):
            keep.append((fn, t))
    return keep


def rule_gf2round(ctx: Ctx, armed: List[Tuple[str, str]], advisory: List[Tuple[str, str]]) -> None:
    repo = ctx.repo
    found = 0
    for rel, fname in armed + advisory:
        m = repo.module(rel)
        sites = [(fn, e) for fn, e in gf2_sites(repo, rel) if fn.name == fname]
        if not sites and (rel, fname) in armed:
            # the idiom is gone from the armed function: fine if the function still exists and has no float source
            fn = repo.anchor(rel, fname)
            if _float_tainted(fn):
                raise AnalysisError(f"{rel}::{fname}: float inverse present but its GF(2) reduction was not recognised")
            ctx.ok_abstract("num.gf2round", f"{rel}::{fname}: no floating-point inverse/determinant used")
            found += 1
        for fn, e in sites:
            found += 1
            ctx.touch(m, fn)
            if _rounded(e):
                ctx.ok("num.gf2round", m, e)
            elif (rel, fname) in armed:
                ctx.fail("num.gf2round", m, e,
                         f"`{short(e, 110)}` reduces a floating-point determinant/inverse modulo 2 (or truncates it) without rounding "
                         f"first: 0.9999999 % 2 truncates to 0, so a valid GF(2) inverse entry is lost for larger matrices",
                         func=fname, construct=f"{fname}: {short(e, 140)}")
            else:
                ctx.fail("num.gf2round", m, e, f"unrounded float inverse reduced mod 2 (no failing input known): {short(e, 100)}",
                         func=fname, advisory=True)
    if found == 0:
        raise AnalysisError("num.gf2round: no site found")


# --------------------------------------------------------------------------- G7 missing return / return shape


def rule_missing_return(ctx: Ctx, rel: str, only: Optional[Set[str]] = None) -> None:
    repo = ctx.repo
    m = repo.module(rel)
    n = 0
    for fn in m.functions():
        if only is not None and qualname(fn) not in only:
            continue
        if any(isinstance(d, ast.Name) and d.id == "abstractmethod" for d in fn.decorator_list):
            continue
        n += 1
        ctx.touch(m, fn)
        last = flow.all_paths_return_value(fn)
        if last:
            ctx.fail("flow.missing-return", m, fn,
                     f"{qualname(fn)} returns a value on some paths but can fall off the end (returning None) on another",
                     func=qualname(fn), construct=f"{qualname(fn)}: path without return")
        else:
            ctx.ok("flow.missing-return", m, fn, what=qualname(fn))
    if n == 0:
        raise AnalysisError(f"flow.missing-return: no function analysed in {rel}")


def rule_return_shape(ctx: Ctx, rel: str, qual: str) -> None:
    """flow.return-shape: all tuple returns of one function list the same variable roles in the same order."""
    repo = ctx.repo
    m = repo.module(rel)
    fn = repo.anchor(rel, qual)
    ctx.touch(m, fn)
    rets = [r for r in ast.walk(fn) if isinstance(r, ast.Return) and isinstance(r.value, ast.Tuple)]
    if len(rets) < 2:
        raise AnalysisError(f"{rel}::{qual}: fewer than two tuple returns")
    ref = rets[0].value
    # role of a position = the name used there on the majority of returns
    width = len(ref.elts)
    cols: List[Dict[str, int]] = [dict() for _ in range(width)]
    for r in rets:
        if len(r.value.elts) != width:
            ctx.fail("flow.return-shape", m, r, f"return tuple has {len(r.value.elts)} elements, others have {width}", func=qual)
            continue
        for i, e in enumerate(r.value.elts):
            cols[i][norm(e)] = cols[i].get(norm(e), 0) + 1
    major = [max(c, key=c.get) if c else None for c in cols]
    for r in rets:
        if len(r.value.elts) != width:
            continue
        txt = [norm(e) for e in r.value.elts]
        # a majority name appearing at a different position is a permuted tuple
        moved = [(i, t) for i, t in enumerate(txt) if t in major and major.index(t) != i and major[i] != t]
        if moved:
            ctx.fail("flow.return-shape", m, r,
                     f"`return {norm(r.value)}` lists its values in a different order than the function's other returns "
                     f"`({', '.join(str(x) for x in major)})`; callers unpack by position",
                     func=qual, construct=f"{qual}: return {norm(r.value)}")
        else:
            ctx.ok("flow.return-shape", m, r)


# --------------------------------------------------------------------------- num.hermitian-arg

_HERM_CONSUMERS = {"eigh", "eigvalsh", "sqrtm_psd", "hermitianize"}
_HERM_PRESERVING = {"sqrtm_psd", "hermitianize", "partial_trace", "bipartite_partial_transpose", "np.real"}


def _matmul_chain(e: ast.AST) -> List[ast.AST]:
    if isinstance(e, ast.BinOp) and isinstance(e.op, ast.MatMult):
        return _matmul_chain(e.left) + _matmul_chain(e.right)
    return [e]


def _is_dagger_of(a: ast.AST, b: ast.AST) -> bool:
    t = norm(a)
    x = norm(b)
    return t in (f"{x}.conj().T", f"{x}.T.conj()", f"np.conjugate({x}.T)", f"np.conjugate({x}).T", f"np.conj({x}).T", f"np.conj({x}.T)", f"np.transpose(np.conjugate({x}))")


def rule_hermitian_args(ctx: Ctx, rel: str, quals: List[str]) -> None:
    """num.hermitian-arg: eigh / sqrtm_psd read only one triangle of their argument and assume it Hermitian, and hermitianize is
    a numerical clean-up, not a projection that keeps the spectrum.  Whatever reaches them must be Hermitian by construction:
    a state, a sum/difference of Hermitian matrices, a palindromic product S @ M @ S of Hermitian factors or X @ X^dagger.
    rho @ sigma is not (unless the two commute): its Hermitian part has a different spectrum."""
    repo = ctx.repo
    m = repo.module(rel)
    sites = 0
    for q in quals:
        fn = repo.anchor(rel, q)
        ctx.touch(m, fn)
        params = set(func_params(fn))
        env: Dict[str, List[ast.AST]] = {}
        for s in ast.walk(fn):
            if isinstance(s, ast.Assign) and len(s.targets) == 1 and isinstance(s.targets[0], ast.Name):
                env.setdefault(s.targets[0].id, []).append(s)

        def herm(e: ast.AST, at: int, depth: int = 0) -> Optional[str]:
            """None if Hermitian by construction, else the offending sub-expression's text"""
            if depth > 12:
                raise AnalysisError(f"{q}: hermitian-by-construction recursion too deep")
            if isinstance(e, ast.Name):
                if e.id in env:
                    prev = [s for s in env[e.id] if s.lineno < at]
                    if prev:
                        s = max(prev, key=lambda x: x.lineno)
                        return herm(s.value, s.lineno, depth + 1)
                if e.id in params:
                    return None
                raise AnalysisError(f"{q}: `{e.id}` not resolved (num.hermitian-arg)")
            if isinstance(e, ast.Constant):
                return None if isinstance(e.value, (int, float)) else short(e)
            if isinstance(e, ast.BinOp):
                if isinstance(e.op, (ast.Add, ast.Sub)):
                    return herm(e.left, at, depth + 1) or herm(e.right, at, depth + 1)
                if isinstance(e.op, (ast.Mult, ast.Div)):
                    sc = [x for x in (e.left, e.right) if isinstance(x, ast.Constant) or (isinstance(x, ast.Call) and call_name(x) in ("np.real", "float", "np.trace"))]
                    mats = [x for x in (e.left, e.right) if x not in sc]
                    if len(mats) == 1:
                        return herm(mats[0], at, depth + 1)
                    return short(e, 80)
                if isinstance(e.op, ast.MatMult):
                    ch = _matmul_chain(e)
                    if len(ch) == 2 and (_is_dagger_of(ch[1], ch[0]) or _is_dagger_of(ch[0], ch[1])):
                        return None
                    txt = [norm(x) for x in ch]
                    if txt == txt[::-1] and len(ch) % 2 == 1:
                        for x in ch[: len(ch) // 2 + 1]:
                            bad = herm(x, at, depth + 1)
                            if bad:
                                return bad
                        return None
                    return short(e, 80)
                return short(e, 80)
            if isinstance(e, ast.Call):
                cn = call_name(e) or ""
                base = cn.split(".")[-1]
                if (cn in _HERM_PRESERVING or base in _HERM_PRESERVING) and e.args:
                    return herm(e.args[0], at, depth + 1)
                if base in ("copy",) and isinstance(e.func, ast.Attribute):
                    return herm(e.func.value, at, depth + 1)
                return short(e, 80)
            if isinstance(e, ast.Attribute) and e.attr == "data":
                return None
            return short(e, 80)

        for c in calls_in(fn):
            base = (call_name(c) or "").split(".")[-1]
            if base in _HERM_CONSUMERS and c.args:
                sites += 1
                bad = herm(c.args[0], c.lineno + 1 if isinstance(c.args[0], ast.Name) and False else c.lineno)
                if bad is None:
                    ctx.ok("num.hermitian-arg", m, c, what=f"{q}: {base}() receives a matrix that is Hermitian by construction")
                else:
                    ctx.fail("num.hermitian-arg", m, c,
                             f"{q}: `{short(c, 60)}` receives `{bad}`, which is not Hermitian by construction (a product of two different Hermitian "
                             f"matrices is Hermitian only when they commute): {base} then works on its Hermitian part, whose eigenvalues are not "
                             f"those of the product", func=q, construct=f"{q}: {base}() of a non-Hermitian product")
    if sites == 0:
        raise AnalysisError(f"{rel}: no eigh / sqrtm_psd / hermitianize call in {quals}")


# --------------------------------------------------------------------------- num.spectral-sqrt


def rule_spectral_sqrt(ctx: Ctx, rel: str = DMF, fname: str = "sqrtm_psd") -> None:
    """num.spectral-sqrt: the PSD square root is V diag(sqrt(w)) V^H with (w, V) = eigh(A).  Between eigh and sqrt the eigenvalues may only
    be clipped from below at exactly 0 (round-off negatives): maximum(w, 0), clip(w, 0, None), where(w > 0, w, 0), abs.  A positive
    threshold discards genuine small eigenvalues — their square roots are far larger than the threshold — and any other map changes the
    spectrum; either way the Uhlmann fidelity built on it is wrong for weakly mixed states."""
    from .. import consteval
    repo = ctx.repo
    m = repo.module(rel)
    fn = repo.anchor(rel, fname)
    ctx.touch(m, fn)
    eig = [a for a in ast.walk(fn) if isinstance(a, ast.Assign) and isinstance(a.value, ast.Call) and call_attr(a.value) in ("eigh", "eig")
           and isinstance(a.targets[0], ast.Tuple) and len(a.targets[0].elts) == 2 and isinstance(a.targets[0].elts[0], ast.Name)]
    if len(eig) != 1:
        raise AnalysisError(f"{fname}: `w, V = eigh(A)` not found")
    w0 = eig[0].targets[0].elts[0].id
    # default values of parameters are the constants a caller of sqrtm_psd(A) gets
    env = {}
    a = fn.args
    pos = a.posonlyargs + a.args
    for p_, d in zip(pos[len(pos) - len(a.defaults):], a.defaults):
        env[p_.arg] = d
    for p_, d in zip(a.kwonlyargs, a.kw_defaults):
        if d is not None:
            env[p_.arg] = d
    for st in ast.walk(fn):
        if isinstance(st, ast.Assign) and len(st.targets) == 1 and isinstance(st.targets[0], ast.Name) and isinstance(st.value, (ast.Constant, ast.UnaryOp, ast.BinOp)):
            env.setdefault(st.targets[0].id, st.value)

    def zero(e) -> bool:
        try:
            return consteval.fold(e, env) == 0
        except Exception:
            return False

    spectrum = {w0}

    def clip_ok(e):
        """None when `e` is not a function of the spectrum; (True, '') when it is the spectrum clipped at 0; (False, why) otherwise"""
        if isinstance(e, ast.Name):
            return (True, "") if e.id in spectrum else None
        if not any(isinstance(x, ast.Name) and x.id in spectrum for x in ast.walk(e)):
            return None
        if isinstance(e, ast.Call):
            cn = call_name(e) or ""
            at = call_attr(e)
            if cn in ("np.maximum", "numpy.maximum") and len(e.args) == 2:
                sp = [x for x in e.args if clip_ok(x) is not None]
                other = [x for x in e.args if clip_ok(x) is None]
                if len(sp) == 1 and clip_ok(sp[0])[0] and len(other) == 1:
                    return (True, "") if zero(other[0]) else (False, f"clips the eigenvalues at `{short(other[0])}`, not at 0")
            if at == "clip":
                recv = e.args[0] if cn in ("np.clip", "numpy.clip") else e.func.value
                rest = e.args[1:] if cn in ("np.clip", "numpy.clip") else e.args
                lo = rest[0] if rest else (get_kw(e, "a_min") or get_kw(e, "min"))
                hi = rest[1] if len(rest) > 1 else (get_kw(e, "a_max") or get_kw(e, "max"))
                r = clip_ok(recv)
                if r and r[0]:
                    if lo is not None and not zero(lo):
                        return (False, f"clips the eigenvalues at `{short(lo)}`, not at 0")
                    if hi is not None and not (isinstance(hi, ast.Constant) and hi.value is None):
                        return (False, f"caps the eigenvalues at `{short(hi)}`")
                    return (True, "")
            if cn in ("np.where", "numpy.where") and len(e.args) == 3 and isinstance(e.args[0], ast.Compare) and len(e.args[0].ops) == 1:
                c = e.args[0]
                l, r_ = c.left, c.comparators[0]
                keep_first = None
                if isinstance(c.ops[0], (ast.Gt, ast.GtE)) and clip_ok(l) and clip_ok(l)[0]:
                    keep_first, thr = True, r_
                elif isinstance(c.ops[0], (ast.Lt, ast.LtE)) and clip_ok(r_) and clip_ok(r_)[0]:
                    keep_first, thr = True, l
                elif isinstance(c.ops[0], (ast.Lt, ast.LtE)) and clip_ok(l) and clip_ok(l)[0]:
                    keep_first, thr = False, r_
                elif isinstance(c.ops[0], (ast.Gt, ast.GtE)) and clip_ok(r_) and clip_ok(r_)[0]:
                    keep_first, thr = False, l
                if keep_first is not None:
                    kept, repl = (e.args[1], e.args[2]) if keep_first else (e.args[2], e.args[1])
                    k = clip_ok(kept)
                    if k and k[0] and zero(repl):
                        return (True, "") if zero(thr) else (False, f"zeroes every eigenvalue below `{short(thr)}`, not only the negative round-off")
            if cn in ("np.abs", "np.absolute", "abs", "np.real", "np.real_if_close") and len(e.args) >= 1:
                r = clip_ok(e.args[0])
                if r:
                    return r
        return (False, f"`{short(e)}` is not a clip of the eigenvalues at 0")

    bad = []
    order = sorted([st for st in ast.walk(fn) if isinstance(st, (ast.Assign, ast.AugAssign))], key=lambda st: (st.lineno, st.col_offset))
    for st in order:
        if st is eig[0]:
            continue
        if isinstance(st, ast.AugAssign):
            if isinstance(st.target, ast.Name) and st.target.id in spectrum:
                bad.append((st, f"`{short(st)}` rescales the eigenvalues"))
            continue
        t = st.targets[0]
        base = t
        while isinstance(base, ast.Subscript):
            base = base.value
        if not isinstance(base, ast.Name):
            continue
        r = clip_ok(st.value)
        if isinstance(t, ast.Subscript) and base.id in spectrum:
            # w[w < 0] = 0
            sl = t.slice
            if isinstance(sl, ast.Compare) and len(sl.ops) == 1 and isinstance(sl.ops[0], (ast.Lt, ast.LtE)) and zero(sl.comparators[0]) and zero(st.value):
                continue
            bad.append((st, f"`{short(st)}` overwrites eigenvalues other than the negative round-off"))
            continue
        if r is None:
            continue
        if r[0]:
            spectrum.add(base.id)
        else:
            bad.append((st, r[1]))
            spectrum.add(base.id)
    sq = [c for c in calls_in(fn) if (call_name(c) or "") in ("np.sqrt", "numpy.sqrt", "sqrt") and c.args]
    rets = [r for r in ast.walk(fn) if isinstance(r, ast.Return) and r.value is not None]
    used = [c for c in sq if clip_ok(c.args[0]) is not None]
    if not used:
        ctx.fail("num.spectral-sqrt", m, fn, f"{fname} does not take the square root of the eigenvalues returned by eigh", func=fname,
                 construct=f"{fname}: no sqrt of the spectrum")
        return
    for c in used:
        r = clip_ok(c.args[0])
        if not r[0]:
            bad.append((c, r[1]))
    if bad:
        for node, why in bad:
            ctx.fail("num.spectral-sqrt", m, node, f"{fname}: {why}; only a clip of round-off negatives at exactly 0 leaves sqrt(A) intact "
                     "(an eigenvalue of 1e-9 contributes 3e-5 to Tr sqrt)", func=fname, construct=f"{fname}: {why}")
    else:
        ctx.ok("num.spectral-sqrt", m, used[0], what="sqrt of the eigh spectrum, clipped at 0 only")


# --------------------------------------------------------------------------- num.spectra-paired


def rule_spectra_paired(ctx: Ctx, rels) -> None:
    """num.spectra-paired: eigh / eigvalsh return eigenvalues in ascending order.  Combining the eigenvalue arrays of two *different* matrices
    entry by entry (p * q, p - q, sqrt(p * q) ...) pairs the i-th smallest of one with the i-th smallest of the other, which says nothing
    about which eigenvalues share an eigenvector — even for commuting matrices (diag(.9, .1) and diag(.1, .9) have the same sorted
    spectrum).  Spectral formulas for two matrices need a common eigenbasis (or the matrix functions themselves)."""
    repo = ctx.repo
    scanned = hits = 0
    for rel in rels:
        m = repo.module(rel)
        for fn in [f for f in ast.walk(m.tree) if isinstance(f, ast.FunctionDef)]:
            scanned += 1
            spec = {}
            for a in ast.walk(fn):
                if isinstance(a, ast.Assign) and len(a.targets) == 1 and isinstance(a.value, ast.Call):
                    cn = (call_name(a.value) or "").split(".")[-1]
                    if cn in ("eigh", "eig") and a.value.args and isinstance(a.targets[0], ast.Tuple) and a.targets[0].elts and isinstance(a.targets[0].elts[0], ast.Name):
                        spec[a.targets[0].elts[0].id] = norm(a.value.args[0])
                    elif cn in ("eigvalsh", "eigvals") and a.value.args and isinstance(a.targets[0], ast.Name):
                        spec[a.targets[0].id] = norm(a.value.args[0])
            if len(set(spec.values())) < 2:
                continue

            def spectrum_of(e):
                names = {x.id for x in ast.walk(e) if isinstance(x, ast.Name) and x.id in spec}
                return {spec[n_] for n_ in names}
            for b in [x for x in ast.walk(fn) if isinstance(x, ast.BinOp) and isinstance(x.op, (ast.Mult, ast.Add, ast.Sub, ast.Div))]:
                l_, r_ = spectrum_of(b.left), spectrum_of(b.right)
                if l_ and r_ and len(l_ | r_) >= 2 and len(l_) == 1 and len(r_) == 1:
                    hits += 1
                    ctx.touch(m, fn)
                    ctx.fail("num.spectra-paired", m, b,
                             f"{qualname(fn)} combines the sorted eigenvalues of `{sorted(l_)[0]}` and of `{sorted(r_)[0]}` entry by entry (`{short(b, 70)}`): the i-th smallest "
                             f"eigenvalues of two matrices need not belong to a common eigenvector, even when the matrices commute (diag(.9,.1) and diag(.1,.9): "
                             f"this gives fidelity 1 where the true value is 0.36)", func=qualname(fn), construct=f"{qualname(fn)}: spectra of two matrices paired by position")
                    break
    ctx.ok_abstract("num.spectra-paired", f"{scanned} functions scanned, {hits} entrywise combinations of two different spectra")

