"""Rules over the compilers' per-operation hooks (DESIGN §3 A1, A2, B1–B4, B8, B9)."""
from __future__ import annotations

import ast
import re
from typing import Dict, List, Optional, Set, Tuple

from .. import flow
from ..chains import Branch, chain_of, extract_chains, is_chain_head, parse_test
from ..core import (AnalysisError, ClassInfo, Module, Repo, arg_or_kw, call_attr, call_name, calls_in, dotted, parent,
                    func_params, get_kw, norm, qualname, short)
from ..report import Ctx

STAB = "graphiq/backends/stabilizer/compiler.py"
DM = "graphiq/backends/density_matrix/compiler.py"
BASE = "graphiq/backends/compiler_base.py"
OPS = "graphiq/circuit/ops.py"

COMPILERS = [(STAB, "StabilizerCompiler"), (DM, "DensityMatrixCompiler")]
HOOKS = ["compile_one_gate", "compile_one_noisy_gate", "_apply_additional_noise"]


def accepted_classes(repo: Repo, rel: str, cls: str) -> List[ClassInfo]:
    ci = repo.cls(cls, rel)
    table = ci.class_attrs().get("ops")
    if table is None:
        raise AnalysisError(f"{rel}::{cls}.ops accepted-operation table missing")
    if isinstance(table, (ast.List, ast.Tuple, ast.Set)):
        elts = table.elts
    elif isinstance(table, ast.Dict):
        elts = table.keys
    else:
        raise AnalysisError(f"{rel}::{cls}.ops has an unrecognised shape: {short(table)}")
    out = []
    for e in elts:
        c = repo.resolve_class(ci.module, dotted(e) or "")
        if c is None:
            raise AnalysisError(f"{rel}::{cls}.ops entry not resolvable: {short(e)}")
        out.append(c)
    return out


def hook_positions(repo: Repo) -> Dict[str, int]:
    """Positions (0-based, excluding self) of state / op / n_quantum / q_index / classical registers in the
    hook call ``self.compile_one_gate(...)`` as made by ``CompilerBase.compile`` — read from the call site."""
    m = repo.module(BASE)
    fn = repo.anchor(BASE, "CompilerBase.compile")
    qidx_name = creg_name = None
    loop_var = None
    for n in ast.walk(fn):
        if isinstance(n, ast.Assign) and isinstance(n.value, ast.Call):
            cn = call_attr(n.value)
            if cn == "reg_to_index_func" and isinstance(n.targets[0], ast.Name):
                qidx_name = n.targets[0].id
            if cn == "zeros" and isinstance(n.targets[0], ast.Name) and "n_classical" in norm(n.value):
                creg_name = n.targets[0].id
    if qidx_name is None or creg_name is None:
        raise AnalysisError("CompilerBase.compile: q_index / classical_registers bindings not found")
    pos: Dict[str, int] = {}
    for c in calls_in(fn):
        if call_name(c) == "self.compile_one_gate":
            for i, a in enumerate(c.args):
                if isinstance(a, ast.Name) and a.id == qidx_name:
                    pos["q_index"] = i
                if isinstance(a, ast.Name) and a.id == creg_name:
                    pos["cregs"] = i
            break
    if "q_index" not in pos or "cregs" not in pos:
        raise AnalysisError("CompilerBase.compile: hook call site not recognised")
    pos["state"] = 0
    pos["op"] = 1
    return pos


def hook_names(fn: ast.FunctionDef, pos: Dict[str, int]) -> Dict[str, str]:
    ps = func_params(fn)[1:]  # drop self
    out = {}
    for k, i in pos.items():
        if i < len(ps):
            out[k] = ps[i]
    return out


# --------------------------------------------------------------------------- chains (flattened)


def flat_chain(repo: Repo, m: Module, fn: ast.FunctionDef, subject: str) -> List[Branch]:
    """Top-level class-dispatch chain of ``fn`` on ``subject``; a final ``else`` consisting of one nested chain on
    the same subject is flattened into it (the repo's noisy hooks use that shape)."""
    head = None
    best = -1
    for st in fn.body:
        if isinstance(st, ast.If):
            b = Branch(st.test, st.body, st)
            if parse_test(repo, m, st.test, b) and b.subject == subject and (b.exact or b.closure):
                # the dispatch chain is the longest if/elif chain on the subject; a one-armed prelude (`if isinstance(op, X): pos = ...`)
                # in front of it is not the dispatch
                ln = len(list(chain_of(st)))
                if ln > best:
                    head, best = st, ln
    if head is None:
        raise AnalysisError(f"{m.rel}::{qualname(fn)}: no class-dispatch chain on '{subject}' found")
    out: List[Branch] = []

    def add(if_node: ast.If):
        for test, body, node in chain_of(if_node):
            if test is None:
                if len(body) == 1 and isinstance(body[0], ast.If):
                    probe = Branch(body[0].test, body[0].body, body[0])
                    if parse_test(repo, m, body[0].test, probe) and probe.subject == subject:
                        add(body[0])
                        return
                out.append(Branch(None, body, node, module=m))
            else:
                b = Branch(test, body, node, module=m)
                b.parsed = parse_test(repo, m, test, b)
                if not b.parsed or b.subject != subject:
                    raise AnalysisError(
                        f"{m.rel}::{qualname(fn)}: dispatch test not recognised: {short(test)}")
                out.append(b)

    add(head)
    return out


def specialise(repo: Repo, m: Module, body: List[ast.stmt], subject: Optional[str], cls: ClassInfo) -> List[ast.stmt]:
    """`body` as executed for an operation of class `cls`: nested `if` tests that classify the same subject by class are decided
    (a branch shared by several classes often ends with `if type(op) is X: <extra step>`)."""
    out: List[ast.stmt] = []
    for st in body:
        if isinstance(st, ast.If) and subject is not None:
            probe = Branch(st.test, st.body, st)
            if parse_test(repo, m, st.test, probe) and probe.subject == subject and (probe.exact or probe.closure):
                arm = st.body if cls.key in probe.classes(repo) else st.orelse
                out += specialise(repo, m, arm, subject, cls)
                continue
        out.append(st)
    return out


def reach(repo: Repo, chain: List[Branch], cls: ClassInfo) -> Optional[Branch]:
    for b in chain:
        if b.test is None or cls.key in b.classes(repo):
            if b.module is not None:
                subj = next((x.subject for x in chain if x.subject), None)
                body = specialise(repo, b.module, b.body, subj, cls)
                if len(body) != len(b.body) or any(x is not y for x, y in zip(body, b.body)):
                    nb = Branch(b.test, body, b.node, b.subject, set(b.exact), set(b.closure), set(b.literals), b.parsed, b.module)
                    return nb
            return b
    return None


def rule_shadow_cover(ctx: Ctx, rel: str, cname: str, hook: str, accepted: List[ClassInfo], cover: bool = True):
    repo = ctx.repo
    m = repo.module(rel)
    fn = repo.anchor(rel, f"{cname}.{hook}")
    ctx.touch(m, fn)
    names = hook_names(fn, hook_positions(repo))
    chain = flat_chain(repo, m, fn, names["op"])
    acc = {c.key for c in accepted}
    seen: Set[str] = set()
    for b in chain:
        if b.test is None:
            continue
        cs = b.classes(repo)
        rel_cs = cs & acc
        if cs and cs <= seen:
            first = next(x for x in chain if x.test is not None and cs <= x.classes(repo) | set() and x is not b
                         and (cs & x.classes(repo)))
            ctx.fail(
                "dispatch.shadow", m, b.node,
                f"branch `{short(b.test, 90)}` is unreachable: every class it accepts "
                f"({', '.join(sorted(k.rsplit('.', 1)[-1] for k in cs))}) is captured by an earlier branch",
                chain=[f"earlier branch: `{short(x.test, 90)}`" for x in chain
                       if x.test is not None and x is not b and x.node.lineno < b.node.lineno and (cs & x.classes(repo))],
                construct=f"{hook}: {short(b.test, 120)}",
                func=f"{cname}.{hook}",
            )
        else:
            ctx.ok("dispatch.shadow", m, b.test, what=f"{cname}.{hook} branch reachable")
        seen |= cs
    if cover:
        for c in accepted:
            b = reach(repo, chain, c)
            if b is None or b.raises:
                ctx.fail(
                    "dispatch.cover", m, fn,
                    f"accepted operation class {c.name} reaches no handling branch of {cname}.{hook} "
                    f"(falls through to `raise`)" if b is not None else
                    f"accepted operation class {c.name} reaches no branch of {cname}.{hook}",
                    construct=f"{hook}: class {c.name}", func=f"{cname}.{hook}")
            else:
                ctx.ok_abstract("dispatch.cover", f"{cname}.{hook}: {c.name} -> `{short(b.test, 70) if b.test is not None else 'else'}`")
    return chain, names


# --------------------------------------------------------------------------- q_index pairing & roles

PAIRS = {("register", "reg_type"), ("control", "control_type"), ("target", "target_type")}

# Frozen role table (confirmed by reading the callees): which *kind* of qubit position each backend primitive takes.
#   measure : the qubit that is measured / reset  -> op.register (one-qubit ops) or op.control (pair ops)
#   act     : the qubit a one-qubit gate acts on   -> op.register or op.target
#   named   : parameters literally named control*/target* must receive that role
ROLE_BY_CALLEE = {
    "apply_measurement": "measure",  # Stabilizer / MixedStabilizer.apply_measurement(qubit_position, ...)
    "reset_qubit": "measure",  # reset of the measured (control) qubit
    "projectors_zbasis": "measure",  # dm: projectors for the measured register
    "get_reset_qubit_kraus": "measure",  # dm: Kraus reset of the measured (control) qubit
    "apply_hadamard": "act", "apply_phase": "act", "apply_phase_dagger": "act",
    "apply_sigmax": "act", "apply_sigmay": "act", "apply_sigmaz": "act",
    "apply_conditioned_gate": "act",  # MixedStabilizer: conditioned correction on the target
    "get_one_qubit_gate": "act",  # dm: embeds a one-qubit matrix at the acted-on position
    "apply_cnot": "named", "apply_cz": "named", "get_two_qubit_controlled_gate": "named",
    "get_backend_dependent_noise": "act",
    "apply": "any",  # noise-model apply(state, n, [positions])
}
ACCEPT = {"measure": {"register", "control"}, "act": {"register", "target"}, "any": {"register", "control", "target"}}


def qindex_calls(fn: ast.FunctionDef, qname: str) -> List[ast.Call]:
    return [c for c in calls_in(fn) if isinstance(c.func, ast.Name) and c.func.id == qname]


def qindex_role(c: ast.Call, opname: str) -> Optional[Tuple[str, str]]:
    if len(c.args) != 2 or c.keywords:
        return None
    a, b = c.args
    if not (isinstance(a, ast.Attribute) and isinstance(b, ast.Attribute)):
        return None
    if not (isinstance(a.value, ast.Name) and a.value.id == opname and isinstance(b.value, ast.Name) and b.value.id == opname):
        return None
    return a.attr, b.attr


def _callee_params(repo: Repo, m: Module, call: ast.Call) -> Optional[List[str]]:
    """Parameter names of the callee (self dropped), resolved through module aliases or by method name over the
    representation classes; all same-named candidates must agree on the position names."""
    name = call_attr(call)
    d = call_name(call)
    cands: List[List[str]] = []
    if d and "." in d:
        head = d.split(".")[0]
        tgt = m.imports.get(head)
        if tgt and tgt in repo.modules:
            f = repo.modules[tgt].find(name)
            if isinstance(f, ast.FunctionDef):
                return func_params(f)
    for cn in ("Stabilizer", "MixedStabilizer", "DensityMatrix"):
        for ci in repo.classes.get(cn, []):
            ms = ci.methods()
            if name in ms:
                cands.append(func_params(ms[name])[1:])
    if not cands:
        return None
    return cands[0] if all(c[: len(cands[0])] == cands[0][: len(c)] or True for c in cands) else None


def rule_qindex(ctx: Ctx, rel: str, cname: str, hooks: List[str]):
    repo = ctx.repo
    m = repo.module(rel)
    pos = hook_positions(repo)
    for hook in hooks:
        fn = repo.anchor(rel, f"{cname}.{hook}")
        ctx.touch(m, fn)
        names = hook_names(fn, pos)
        qn, on = names["q_index"], names["op"]
        # a backend primitive never receives a raw register number: positions come from q_index (photons first, then emitters), and the
        # number of an emitter register is the position of the like-numbered photon
        for bc in [x for x in calls_in(fn) if call_attr(x) in ROLE_BY_CALLEE]:
            flat = []
            for a_ in list(bc.args) + [k.value for k in bc.keywords]:
                flat += list(a_.elts) if isinstance(a_, (ast.List, ast.Tuple)) else [a_]
            for a_ in flat:
                if isinstance(a_, ast.Attribute) and isinstance(a_.value, ast.Name) and a_.value.id == on and a_.attr in ("register", "control", "target"):
                    ctx.fail("sibling.qindex", m, bc,
                             f"`{short(bc)}` hands the raw register number `{norm(a_)}` to a backend primitive that takes a qubit position; positions come from "
                             f"`{qn}({norm(a_)}, {on}.{'reg_type' if a_.attr == 'register' else a_.attr + '_type'})` — an emitter's number is the position of the "
                             f"like-numbered photon", func=f"{cname}.{hook}", construct=f"{call_attr(bc)}(<- raw {norm(a_)})")
        for c in qindex_calls(fn, qn):
            role = qindex_role(c, on)
            if role is None or role not in PAIRS:
                ctx.fail("sibling.qindex", m, c,
                         f"`{short(c)}` does not pair a register attribute of `{on}` with its own type attribute "
                         f"(accepted: register/reg_type, control/control_type, target/target_type)",
                         func=f"{cname}.{hook}")
                continue
            ctx.ok("sibling.qindex", m, c)
            # role of the enclosing backend call
            par = getattr(c, "_parent", None)
            holder = par
            while holder is not None and not isinstance(holder, ast.Call):
                if isinstance(holder, (ast.List, ast.Tuple, ast.keyword)):
                    holder = getattr(holder, "_parent", None)
                    continue
                break
            via = c
            if isinstance(holder, ast.Assign) and len(holder.targets) == 1 and isinstance(holder.targets[0], ast.Name):
                # `pos = q_index(op.x, op.x_type)` ... `state.apply_h(pos)`: follow the local to its (single) consuming call
                v = holder.targets[0].id
                uses = [x for x in calls_in(fn) if any(isinstance(a, ast.Name) and a.id == v for a in list(x.args) + [k.value for k in x.keywords])
                        and call_attr(x) in ROLE_BY_CALLEE]
                if len(uses) >= 1:
                    holder = uses[0]
                    via = next(a for a in list(holder.args) + [k.value for k in holder.keywords] if isinstance(a, ast.Name) and a.id == v)
            if not isinstance(holder, ast.Call):
                # the index flows into a local collection: the pairing (B1) is decided, the role binding (B2) is not
                ctx.note(f"{rel}::{cname}.{hook}: role of `{short(c)}` not decided (index stored in a local before use)")
                continue
            callee = call_attr(holder)
            kind = ROLE_BY_CALLEE.get(callee)
            if kind is None and isinstance(holder.func, ast.Name):
                # a method picked from a class-keyed table of method names: X = getattr(state, TABLE[type(op)]); X(...)
                bind = [a for a in ast.walk(fn) if isinstance(a, ast.Assign) and len(a.targets) == 1 and isinstance(a.targets[0], ast.Name)
                        and a.targets[0].id == holder.func.id and isinstance(a.value, ast.Call) and isinstance(a.value.func, ast.Name)
                        and a.value.func.id == "getattr" and len(a.value.args) == 2 and isinstance(a.value.args[1], ast.Subscript)]
                if len(bind) == 1:
                    tv = bind[0].value.args[1].value
                    tname_ = tv.id if isinstance(tv, ast.Name) else tv.attr if isinstance(tv, ast.Attribute) else None
                    dct = None
                    ci_ = repo.cls(cname, rel)
                    for st_ in list(m.tree.body) + list(ci_.node.body):
                        if isinstance(st_, ast.Assign) and any(isinstance(t, ast.Name) and t.id == tname_ for t in st_.targets) and isinstance(st_.value, ast.Dict):
                            dct = st_.value
                    if dct is not None:
                        kinds = {ROLE_BY_CALLEE.get(v.value) if isinstance(v, ast.Constant) else None for v in dct.values}
                        if len(kinds) == 1 and None not in kinds:
                            kind = kinds.pop()
                            callee = f"{tname_}[...]"
            if kind is None:
                raise AnalysisError(f"{rel}::{cname}.{hook}: backend primitive `{callee}` not in the role table")
            if kind == "named":
                params = _callee_params(repo, m, holder)
                if params is None:
                    raise AnalysisError(f"{rel}::{cname}.{hook}: cannot resolve signature of `{callee}`")
                pname = None
                for kw in holder.keywords:
                    if kw.value is via:
                        pname = kw.arg
                for i, a in enumerate(holder.args):
                    if a is via and i < len(params):
                        pname = params[i]
                if pname is None:
                    raise AnalysisError(f"{rel}::{cname}.{hook}: cannot bind q_index argument of `{callee}`")
                want = "control" if re.search(r"control|ctrl", pname) else ("target" if "target" in pname else None)
                if want is None:
                    raise AnalysisError(f"{rel}::{cname}.{hook}: parameter `{pname}` of `{callee}` has no role")
                if role[0] != want:
                    ctx.fail("sibling.role", m, holder,
                             f"`{short(c)}` ({role[0]}) is bound to parameter `{pname}` of `{callee}` which takes the {want} qubit",
                             func=f"{cname}.{hook}", construct=f"{callee}({pname}={short(c)})")
                else:
                    ctx.ok("sibling.role", m, holder, what=f"{callee}.{pname} <- {role[0]}")
            else:
                if role[0] not in ACCEPT[kind]:
                    ctx.fail("sibling.role", m, holder,
                             f"`{callee}` takes the {'measured/reset' if kind == 'measure' else 'acted-on'} qubit but receives "
                             f"`{short(c)}` ({role[0]})",
                             func=f"{cname}.{hook}", construct=f"{callee}(<- {short(c)})")
                else:
                    ctx.ok("sibling.role", m, holder, what=f"{callee} <- {role[0]}")


# --------------------------------------------------------------------------- classical record, reset, determinism

MEASURE_CALLS = {"apply_measurement", "apply_measurement_controlled_gate"}


def classes_with_cregister(repo: Repo, accepted: List[ClassInfo]) -> List[ClassInfo]:
    out = []
    for c in accepted:
        has = False
        for k in repo.mro(c):
            init = k.methods().get("__init__")
            if init is None:
                continue
            for n in ast.walk(init):
                if isinstance(n, ast.Attribute) and isinstance(n.ctx, ast.Store) and n.attr == "c_register" \
                        and isinstance(n.value, ast.Name) and n.value.id == "self":
                    has = True
        if has:
            out.append(c)
    return out


def _measure_vars(body: List[ast.stmt]) -> Set[str]:
    vs: Set[str] = set()
    for st in body:
        for n in ast.walk(st):
            if isinstance(n, ast.Assign) and isinstance(n.value, ast.Call) and call_attr(n.value) in MEASURE_CALLS:
                for t in n.targets:
                    if isinstance(t, ast.Name):
                        vs.add(t.id)
    return vs


def _is_creg_store(node: ast.AST, cregs: str, opname: str) -> Optional[ast.Assign]:
    for n in ast.walk(node):
        if isinstance(n, ast.Assign):
            for t in n.targets:
                if isinstance(t, ast.Subscript) and isinstance(t.value, ast.Name) and t.value.id == cregs \
                        and norm(t.slice) == f"{opname}.c_register":
                    return n
    return None


def rule_crecord(ctx: Ctx, rel: str, cname: str, chain: List[Branch], names: Dict[str, str], accepted: List[ClassInfo]):
    repo = ctx.repo
    m = repo.module(rel)
    cregs, on = names["cregs"], names["op"]
    for c in classes_with_cregister(repo, accepted):
        b = reach(repo, chain, c)
        if b is None or b.raises:
            continue  # dispatch.cover reports it
        mv = _measure_vars(b.body)
        ok = flow.must_pass(b.body, lambda n: not isinstance(n, (ast.If, ast.For, ast.While)) and
                            _is_creg_store(n, cregs, on) is not None)
        if not ok:
            ctx.fail("sibling.crecord", m, b.node,
                     f"the branch of {cname}.compile_one_gate reached by {c.name} (which owns a classical register) has a "
                     f"path that never stores the measurement outcome into `{cregs}[{on}.c_register]`",
                     chain=[f"sibling branches and the other backend store the value returned by "
                            f"{'/'.join(sorted(MEASURE_CALLS))}"],
                     construct=f"compile_one_gate: {c.name} branch `{short(b.test, 80) if b.test is not None else 'else'}`",
                     func=f"{cname}.compile_one_gate")
            continue
        bad = False
        for st in b.body:
            for n in ast.walk(st):
                if isinstance(n, ast.Assign) and _is_creg_store(n, cregs, on) is n:
                    v = n.value
                    if isinstance(v, ast.Subscript):
                        v = v.value
                    if not (isinstance(v, ast.Name) and v.id in mv):
                        bad = True
                        ctx.fail("sibling.crecord", m, n,
                                 f"classical register receives `{short(n.value)}` which is not the value returned by the "
                                 f"branch's measurement call", func=f"{cname}.compile_one_gate")
        if not bad:
            ctx.ok_abstract("sibling.crecord", f"{cname}: {c.name} branch records outcome")


def rule_reset(ctx: Ctx, rel: str, cname: str, chain: List[Branch], names: Dict[str, str], mcr: ClassInfo):
    """sibling.reset: measurement, then the backend's reset primitive on the control qubit, on every path."""
    repo = ctx.repo
    m = repo.module(rel)
    b = reach(repo, chain, mcr)
    if b is None or b.raises:
        return
    qn, on = names["q_index"], names["op"]

    # local names bound to q_index(op.control, op.control_type) anywhere in the hook
    fn_ = b.node
    while fn_ is not None and not isinstance(fn_, ast.FunctionDef):
        fn_ = parent(fn_)
    ctrl_names: Set[str] = set()
    if fn_ is not None:
        for a_ in ast.walk(fn_):
            if isinstance(a_, ast.Assign) and len(a_.targets) == 1 and isinstance(a_.targets[0], ast.Name) and isinstance(a_.value, ast.Call) \
                    and isinstance(a_.value.func, ast.Name) and a_.value.func.id == qn and qindex_role(a_.value, on) == ("control", "control_type"):
                ctrl_names.add(a_.targets[0].id)

    def on_control(call: ast.Call) -> bool:
        for a in list(call.args) + [k.value for k in call.keywords]:
            if isinstance(a, ast.Call) and isinstance(a.func, ast.Name) and a.func.id == qn \
                    and qindex_role(a, on) == ("control", "control_type"):
                return True
            if isinstance(a, ast.Name) and a.id in ctrl_names:
                return True
        return False

    kraus_vars: Set[str] = set()
    for st in b.body:
        for n in ast.walk(st):
            if isinstance(n, ast.Assign) and isinstance(n.value, ast.Call) \
                    and call_attr(n.value) == "get_reset_qubit_kraus" and on_control(n.value):
                kraus_vars |= {t.id for t in n.targets if isinstance(t, ast.Name)}

    def step(node, s):
        if isinstance(node, (ast.If, ast.For, ast.While)):
            return s
        for c in [x for x in ast.walk(node) if isinstance(x, ast.Call)]:
            a = call_attr(c)
            if a in MEASURE_CALLS:
                s = max(s, 1)
            if s >= 1 and a == "reset_qubit" and on_control(c) and isinstance(c.func, ast.Attribute) and norm(c.func.value) == names.get("state", "state"):
                s = 2
            if s >= 1 and a == "apply_channel" and c.args and isinstance(c.args[0], ast.Name) and c.args[0].id in kraus_vars:
                s = 2
        return s

    o = flow.run(b.body, step, {0})
    ends = o.fall | o.ret
    if ends and ends <= {2}:
        ctx.ok_abstract("sibling.reset", f"{cname}: branch reached by {mcr.name} measures then resets the control qubit on every path")
    else:
        foreign = [c for st in b.body for c in calls_in(st) if "reset" in (call_attr(c) or call_name(c) or "").lower()
                   and not (call_attr(c) in ("reset_qubit", "get_reset_qubit_kraus"))
                   or ("reset" in (call_name(c) or "").lower() and isinstance(c.func, ast.Attribute) and norm(c.func.value) != names.get("state", "state")
                       and call_attr(c) == "reset_qubit")]
        if foreign:
            raise AnalysisError(f"{cname}.compile_one_gate: the branch reached by {mcr.name} resets through `{short(foreign[0], 60)}`, which is not one of the "
                                f"reset primitives this checker trusts (state.reset_qubit / the reset Kraus channel): its effect on the other qubits is "
                                f"not decided")
        ctx.fail("sibling.reset", m, b.node,
                 f"the branch of {cname}.compile_one_gate reached by {mcr.name} does not, on every path, apply the "
                 f"backend's reset primitive to q_index(op.control, op.control_type) after the measurement",
                 chain=[f"branch taken: `{short(b.test, 100) if b.test is not None else 'else'}`",
                        "accepted reset primitives: state.reset_qubit(<control>) / state.apply_channel(dm.get_reset_qubit_kraus(n, <control>))"],
                 construct=f"compile_one_gate: {mcr.name} reaches `{short(b.test, 80) if b.test is not None else 'else'}`",
                 func=f"{cname}.compile_one_gate")


DET_CALLS = {"apply_measurement", "apply_measurement_controlled_gate", "reset_qubit"}


def rule_determinism(ctx: Ctx, rel: str, cname: str, hooks: List[str]):
    """sibling.determinism: every measurement/reset call in the hooks forwards self.measurement_determinism."""
    repo = ctx.repo
    m = repo.module(rel)
    for hook in hooks:
        fn = repo.anchor(rel, f"{cname}.{hook}")
        state_names = {p_ for p_ in func_params(fn) if p_ == "state"} or {"state"}
        for c in calls_in(fn):
            # methods of the state representation only (a module-level helper that happens to share a name is not one of them)
            if call_attr(c) in DET_CALLS and isinstance(c.func, ast.Attribute) and norm(c.func.value) in state_names:
                v = get_kw(c, "measurement_determinism")
                if v is None:
                    params = _callee_params(repo, m, c)
                    if params and "measurement_determinism" in params:
                        i = params.index("measurement_determinism")
                        if i < len(c.args):
                            v = c.args[i]
                if v is not None and norm(v) in ("self.measurement_determinism", "self._measurement_determinism"):
                    ctx.ok("sibling.determinism", m, c)
                else:
                    ctx.fail("sibling.determinism", m, c,
                             f"`{call_attr(c)}` is called with measurement_determinism="
                             f"{short(v) if v is not None else '<callee default>'} instead of the compiler's setting",
                             func=f"{cname}.{hook}",
                             construct=f"{call_attr(c)}(measurement_determinism={short(v) if v is not None else 'default'}) on {short(c.args[0], 60) if c.args else ''}")


def rule_condition(ctx: Ctx):
    """sibling.condition: a correction conditioned on a measurement is guarded by `outcome == 1`."""
    repo = ctx.repo
    sites = [
        (STAB, "StabilizerCompiler.compile_one_gate"),
        ("graphiq/backends/stabilizer/state.py", "MixedStabilizer.apply_conditioned_gate"),
        ("graphiq/backends/density_matrix/state.py", "DensityMatrix.apply_measurement_controlled_gate"),
    ]
    for rel, q in sites:
        m = repo.module(rel)
        fn = repo.anchor(rel, q)
        ctx.touch(m, fn)
        mv = _measure_vars(fn.body)
        # loop variables over an outcomes list are outcome-derived as well
        for n in ast.walk(fn):
            if isinstance(n, ast.For) and "outcome" in norm(n.iter):
                mv |= {x.id for x in ast.walk(n.target) if isinstance(x, ast.Name) and "outcome" in x.id}
        for n in ast.walk(fn):
            if isinstance(n, ast.If) and isinstance(n.test, ast.Compare):
                t = n.test
                if len(t.ops) == 1 and isinstance(t.ops[0], (ast.Eq, ast.NotEq)) and isinstance(t.left, ast.Constant) \
                        and isinstance(t.comparators[0], ast.Name):
                    t = ast.Compare(left=t.comparators[0], ops=t.ops, comparators=[t.left])   # `1 == outcome`
                if isinstance(t.left, ast.Name) and t.left.id in mv and len(t.ops) == 1:
                    if isinstance(t.ops[0], ast.Eq) and isinstance(t.comparators[0], ast.Constant) and t.comparators[0].value == 1 and not n.orelse:
                        ctx.ok("sibling.condition", m, n.test)
                    else:
                        ctx.fail("sibling.condition", m, n.test,
                                 f"measurement-conditioned correction is guarded by `{short(t)}`; every sibling applies the "
                                 f"correction exactly when the outcome is 1", func=q)



def rule_single_noise_applied(ctx: Ctx) -> None:
    """noise.single-applied: for every one-qubit operation class (Identity included: idle noise sits on identities, and wrapper-level noise
    is carried by one) the branch of _apply_additional_noise that the class reaches first applies `op.noise` on the operation's own qubit,
    q_index(op.register, op.reg_type).  A branch placed in front that swallows some one-qubit classes drops their noise in that backend
    only, so the two backends simulate different channels."""
    repo = ctx.repo
    one = repo.cls("OneQubitOperationBase", OPS)
    classes = [c for c in repo.subclasses(one) if c.module.rel == OPS and c.name not in ("OneQubitGateWrapper",)]
    if len(classes) < 6:
        raise AnalysisError("noise.single-applied: one-qubit operation classes not found")
    for rel, cname in COMPILERS:
        m = repo.module(rel)
        fn = repo.anchor(rel, f"{cname}._apply_additional_noise")
        ctx.touch(m, fn)
        ps = func_params(fn)[1:]
        on, qn = ps[1], ps[3]
        chain = flat_chain(repo, m, fn, on)
        dropped = []
        for c in classes:
            b = reach(repo, chain, c)
            ok = False
            if b is not None and not b.raises:
                for call in [x for st in b.body for x in ast.walk(st) if isinstance(x, ast.Call)]:
                    if call_attr(call) == "apply" and norm(call.func.value) == f"{on}.noise":
                        for a in ast.walk(call):
                            if isinstance(a, ast.Call) and isinstance(a.func, ast.Name) and a.func.id == qn and qindex_role(a, on) == ("register", "reg_type"):
                                ok = True
            if not ok:
                dropped.append((c.name, b))
        if dropped:
            names = sorted(n_ for n_, _ in dropped)
            b0 = dropped[0][1]
            ctx.fail("noise.single-applied", m, b0.node if b0 is not None else fn,
                     f"{cname}._apply_additional_noise does not apply `{on}.noise` on the operation's qubit for {names}: their first matching branch is "
                     f"`{short(b0.test) if b0 is not None and b0.test is not None else 'else'}`; noise attached to such an operation is dropped by this backend only",
                     func=f"{cname}._apply_additional_noise", construct=f"{cname}: one-qubit noise dropped for {names[:3]}")
        else:
            ctx.ok("noise.single-applied", m, fn, what=f"{cname}: {len(classes)} one-qubit classes reach the branch that applies op.noise on their qubit")


def rule_pair_noise_applied(ctx: Ctx) -> None:
    """noise.both-applied: for a controlled pair, _apply_additional_noise applies the control's noise on the control qubit and
    the target's noise on the target qubit on every path (an early exit after one of them drops the other)."""
    repo = ctx.repo
    pos = hook_positions(repo)
    cp = repo.cls("ControlledPairOperationBase", OPS)
    for rel, cname in COMPILERS:
        m = repo.module(rel)
        fn = repo.anchor(rel, f"{cname}._apply_additional_noise")
        ctx.touch(m, fn)
        ps = func_params(fn)[1:]
        on, qn = ps[1], ps[3]
        chain = flat_chain(repo, m, fn, on)
        b = reach(repo, chain, cp)
        if b is None or b.raises:
            ctx.fail("noise.both-applied", m, fn, f"{cname}._apply_additional_noise has no branch for controlled pair operations",
                     func=f"{cname}._apply_additional_noise", construct=f"{cname}: no pair branch")
            continue

        def role_of_call(c: ast.Call):
            for a in ast.walk(c):
                if isinstance(a, ast.Call) and isinstance(a.func, ast.Name) and a.func.id == qn:
                    r = qindex_role(a, on)
                    if r:
                        return r[0]
            return None

        # registers bound to names / lists first
        reg_names = {}
        for n in ast.walk(ast.Module(body=b.body, type_ignores=[])):
            if isinstance(n, ast.Assign) and len(n.targets) == 1 and isinstance(n.targets[0], ast.Name):
                roles = [qindex_role(x, on)[0] for x in ast.walk(n.value) if isinstance(x, ast.Call) and isinstance(x.func, ast.Name)
                         and x.func.id == qn and qindex_role(x, on)]
                if roles:
                    reg_names[n.targets[0].id] = roles

        def step(node, s):
            if isinstance(node, (ast.If, ast.While, ast.For)):
                return s
            c0, t0 = s
            for c in [x for x in ast.walk(node) if isinstance(x, ast.Call) and call_attr(x) == "apply"]:
                r = role_of_call(c)
                if r == "control":
                    c0 = min(2, c0 + 1)
                elif r == "target":
                    t0 = min(2, t0 + 1)
            return (c0, t0)

        # a loop `for noise, reg in zip(op.noise, <two registers>)` whose body applies unconditionally counts once for each
        loops = [l for l in b.body if isinstance(l, ast.For)]
        body = list(b.body)
        extra = (0, 0)
        for l in loops:
            names = {x.id for x in ast.walk(l.iter) if isinstance(x, ast.Name)}
            regs = [r for nme in names for r in reg_names.get(nme, [])]
            uncond = flow.must_pass(l.body, lambda nd: not isinstance(nd, (ast.If, ast.For, ast.While)) and any(
                isinstance(x, ast.Call) and call_attr(x) == "apply" for x in ast.walk(nd)))
            early = any(isinstance(x, (ast.Break, ast.Continue, ast.Return)) for x in ast.walk(l))
            if sorted(regs) == ["control", "target"]:
                if uncond and not early:
                    extra = (extra[0] + 1, extra[1] + 1)
                else:
                    ctx.fail("noise.both-applied", m, l,
                             f"{cname}._apply_additional_noise applies the pair's noise in a loop that can skip or stop early "
                             f"(`break`/`continue`/conditional apply): when the control's noise is e.g. NoNoise the target's noise is "
                             f"silently dropped", func=f"{cname}._apply_additional_noise", construct=f"{cname}: pair-noise loop with early exit")
                    extra = None
                    break
        if extra is None:
            continue
        o = flow.run(body, step, {(0, 0)})
        ends = {(c0 + extra[0], t0 + extra[1]) for (c0, t0) in (o.fall | o.ret)}
        if ends == {(1, 1)}:
            ctx.ok("noise.both-applied", m, b.node, what=f"{cname}: control and target noise each applied once on every path")
        else:
            ctx.fail("noise.both-applied", m, b.node,
                     f"{cname}._apply_additional_noise applies (control, target) noise {sorted(ends)} times depending on the path; both must be "
                     f"applied exactly once", func=f"{cname}._apply_additional_noise", construct=f"{cname}: pair noise counts {sorted(ends)}")



# --------------------------------------------------------------------------- memoisation keys, determinism pass-through


def _atoms(e: ast.AST, env: Dict[str, ast.AST], params: Set[str], depth: int = 0) -> Set[str]:
    """Leaf dependencies of an expression: parameters and attribute chains rooted at a parameter, after substituting locals."""
    out: Set[str] = set()
    if e is None:
        return out
    if isinstance(e, ast.Attribute):
        d = dotted(e)
        if d and d.split(".")[0] in params:
            out.add(".".join(d.split(".")[:2]))
            return out
    if isinstance(e, ast.Name):
        if e.id in env and depth < 5:
            return _atoms(env[e.id], env, params, depth + 1)
        if e.id in params:
            out.add(e.id)
        return out
    for ch in ast.iter_child_nodes(e):
        out |= _atoms(ch, env, params, depth)
    return out


def rule_cache_keys(ctx: Ctx, rels_classes: List[Tuple[str, str]]) -> None:
    """cache.key-complete: a memoised value `D[key] = value` (guarded by `key not in D`) may only depend on what its key
    contains; a dependency of the value that is missing from the key makes a later call with a different such input reuse
    the operators of an earlier one (results then depend on the history of the compiler object)."""
    repo = ctx.repo
    n = 0
    for rel, cname in rels_classes:
        m = repo.module(rel)
        ci = repo.cls(cname, rel)
        for name, fn in ci.methods().items():
            params = {p_ for p_ in func_params(fn) if p_ != "self"}
            env = {}
            for st in ast.walk(fn):
                if isinstance(st, ast.Assign) and len(st.targets) == 1 and isinstance(st.targets[0], ast.Name):
                    env.setdefault(st.targets[0].id, st.value)
            for iff in [x for x in ast.walk(fn) if isinstance(x, ast.If)]:
                t = iff.test
                if not (isinstance(t, ast.Compare) and len(t.ops) == 1 and isinstance(t.ops[0], ast.NotIn)):
                    continue
                key_e, store = t.left, norm(t.comparators[0])
                sets = [st for st in ast.walk(iff) if isinstance(st, ast.Assign) and isinstance(st.targets[0], ast.Subscript)
                        and norm(st.targets[0].value) == store and norm(st.targets[0].slice) == norm(key_e)]
                if not sets:
                    continue
                n += 1
                ctx.touch(m, fn)
                local_env = dict(env)
                for st in ast.walk(iff):
                    if isinstance(st, ast.Assign) and len(st.targets) == 1 and isinstance(st.targets[0], ast.Name):
                        local_env[st.targets[0].id] = st.value
                key_atoms = _atoms(key_e, local_env, params)
                val_atoms = _atoms(sets[0].value, local_env, params)
                missing = sorted(a for a in val_atoms - key_atoms if not a.startswith("q_index"))
                # callables passed in (q_index) are not data; attributes of the same object that the key already covers by value are fine
                missing = [a for a in missing if a not in params or a not in {"q_index"}]
                if missing:
                    ctx.fail("cache.key-complete", m, sets[0],
                             f"{cname}.{name} memoises `{short(sets[0].value, 60)}` under the key `{short(local_env.get(norm(key_e), key_e), 70)}`, but the value "
                             f"also depends on {missing}: a call that differs only in those reuses the cached operators of an earlier call",
                             func=f"{cname}.{name}", construct=f"{cname}.{name}: cache key misses {missing}")
                else:
                    ctx.ok("cache.key-complete", m, sets[0], what=f"{cname}.{name}: key covers every dependency of the cached value")
    if n == 0:
        ctx.ok_abstract("cache.key-complete", "no memoisation cache in the compilers / representation classes (nothing to key)")


def rule_determinism_passthrough(ctx: Ctx) -> None:
    """sibling.determinism (wrapper layer): a representation method that receives `measurement_determinism` hands it to the
    backend function unchanged — the setting 0 is falsy, so `x or "probabilistic"` / `if x:` silently turns 'forced 0' into a
    random draw."""
    repo = ctx.repo
    n = 0
    for rel, cname in (("graphiq/backends/stabilizer/state.py", "Stabilizer"), ("graphiq/backends/stabilizer/state.py", "MixedStabilizer"),
                       ("graphiq/backends/density_matrix/state.py", "DensityMatrix")):
        m = repo.module(rel)
        ci = repo.cls(cname, rel)
        for name, fn in ci.methods().items():
            ps = func_params(fn)
            det = [p_ for p_ in ps if "determinism" in p_]
            if not det:
                continue
            det = det[0]
            ctx.touch(m, fn)
            for node in ast.walk(fn):
                if isinstance(node, ast.BoolOp) and any(isinstance(v, ast.Name) and v.id == det for v in node.values):
                    n += 1
                    ctx.fail("sibling.determinism", m, node,
                             f"{cname}.{name} evaluates `{short(node)}`: the determinism setting 0 ('force outcome 0') is falsy, so it is replaced "
                             f"by the fallback", func=f"{cname}.{name}", construct=f"{cname}.{name}: {short(node, 60)}")
                if isinstance(node, (ast.If, ast.IfExp)) and isinstance(node.test, ast.Name) and node.test.id == det:
                    n += 1
                    ctx.fail("sibling.determinism", m, node, f"{cname}.{name} tests the truthiness of the determinism setting; 0 is a valid setting",
                             func=f"{cname}.{name}", construct=f"{cname}.{name}: truthiness test of {det}")
            prim = [c for c in calls_in(fn) if call_attr(c) in ("z_measurement_gate", "x_measurement_gate", "reset_z", "apply_measurement", "reset_qubit")]
            if prim and not any(det in {x.id for x in ast.walk(a) if isinstance(x, ast.Name)} for c in prim for a in list(c.args) + [k.value for k in c.keywords]):
                n += 1
                ctx.fail("sibling.determinism", m, prim[0],
                         f"{cname}.{name} receives `{det}` but calls `{short(prim[0], 60)}` without it: the measurement falls back to the primitive's default "
                         f"('probabilistic'), so a forced outcome (0 or 1) is drawn at random on this path", func=f"{cname}.{name}",
                         construct=f"{cname}.{name}: {det} not forwarded to {call_attr(prim[0])}")
            for c in calls_in(fn):
                if call_attr(c) in ("z_measurement_gate", "x_measurement_gate", "reset_z", "remove_qubit", "partial_trace", "apply_measurement"):
                    args = list(c.args) + [k.value for k in c.keywords]
                    uses = [a for a in args if det in {x.id for x in ast.walk(a) if isinstance(x, ast.Name)}]
                    for a in uses:
                        n += 1
                        if isinstance(a, ast.Name) and a.id == det:
                            ctx.ok("sibling.determinism", m, c, what=f"{cname}.{name} forwards the setting unchanged")
                        elif not isinstance(a, ast.BoolOp):
                            ctx.fail("sibling.determinism", m, c, f"{cname}.{name} forwards `{short(a)}` instead of the determinism setting itself",
                                     func=f"{cname}.{name}", construct=f"{cname}.{name}: forwards {short(a, 50)}")
    if n == 0:
        raise AnalysisError("determinism pass-through: no wrapper site found")
