"""Maintenance of CircuitDAG.node_dict (the label / class-name / register-type index of the DAG's nodes), with helpers followed.

Each of _add_node, _remove_node and replace_op is summarised as a time-ordered list of *index events*:
  ('append' | 'remove', key kinds, whose operation the keys describe)      and      ('store',) for `self.dag.nodes[n]["op"] = <op>`
The keys' owner is either a named operation object (a parameter, or a local bound to the node's operation *before* a store) or
'dag' — "whatever operation the node holds at that moment" (`self.dag.nodes[node]["op"]` read where the keys are computed, possibly
inside a helper).  Calls of other CircuitDAG methods are inlined (bounded depth) at the position of the call, so a refactor that
moves the loops into `_register_node` / `_unregister_node` helpers is judged by what it does, not by where the calls are written."""
from __future__ import annotations

import ast
from typing import Dict, List, Optional, Set, Tuple

from ..core import AnalysisError, Module, Repo, call_attr, call_name, calls_in, func_params, norm, parent, short
from ..report import Ctx

DAG = "graphiq/circuit/circuit_dag.py"
WANT = {"labels", "type", "regtypes"}


def _is_node_op(e: ast.AST) -> bool:
    """self.dag.nodes[<n>]["op"]"""
    return isinstance(e, ast.Subscript) and isinstance(e.slice, ast.Constant) and e.slice.value == "op" and isinstance(e.value, ast.Subscript) \
        and isinstance(e.value.value, ast.Attribute) and e.value.value.attr in ("nodes", "_node") and norm(e.value.value.value).endswith("dag")


class _Summ:
    def __init__(self, repo: Repo, cls):
        self.repo = repo
        self.cls = cls
        self.methods = cls.methods()

    def key_kinds(self, e: ast.AST, fn: ast.FunctionDef, env: Dict[str, str]) -> List[Tuple[str, str]]:
        """[(kind, owner)] for one key expression; owner: an operation name, or 'dag'"""
        from ..core import deref
        if isinstance(e, ast.Name) and e.id not in env:
            e = deref(fn, e)      # a key that was given a name first (`key = op.parse_q_reg_types()`) is the expression it names

        def owner_of(x: ast.AST) -> str:
            if _is_node_op(x):
                return "dag"
            if isinstance(x, ast.Name):
                return env.get(x.id, x.id)
            return norm(x)
        if isinstance(e, ast.Attribute) and e.attr == "__name__" and isinstance(e.value, ast.Call) and call_name(e.value) == "type" and e.value.args:
            return [("type", owner_of(e.value.args[0]))]
        if isinstance(e, ast.Call) and call_attr(e) == "parse_q_reg_types":
            return [("regtypes", owner_of(e.func.value))]
        if isinstance(e, ast.Attribute) and e.attr == "labels":
            return [("labels", owner_of(e.value))]
        if isinstance(e, ast.Starred):
            return self.key_kinds(e.value, fn, env)
        return [("other:" + norm(e)[:30], "?")]

    def key_list(self, e: ast.AST, fn: ast.FunctionDef, env: Dict[str, str], depth: int) -> Optional[List[Tuple[str, str]]]:
        """kinds of an iterable of keys: `<op>.labels`, a list literal, or a call of a method returning such a list"""
        if isinstance(e, ast.Attribute) and e.attr == "labels":
            return self.key_kinds(e, fn, env)
        if isinstance(e, (ast.List, ast.Tuple)):
            out = []
            for x in e.elts:
                out += self.key_kinds(x, fn, env)
            return out
        if isinstance(e, ast.Call) and isinstance(e.func, ast.Attribute) and norm(e.func.value) == "self" and e.func.attr in self.methods and depth < 3:
            h = self.methods[e.func.attr]
            henv = self.bind(h, e, env)
            hdefs = self.local_ops(h, henv)
            rets = [r for r in ast.walk(h) if isinstance(r, ast.Return) and r.value is not None]
            if len(rets) == 1:
                return self.key_list(rets[0].value, h, hdefs, depth + 1)
        return None

    def bind(self, h: ast.FunctionDef, call: ast.Call, env: Dict[str, str]) -> Dict[str, str]:
        ps = func_params(h)[1:]
        out = {}
        for p_, a in zip(ps, call.args):
            out[p_] = env.get(a.id, a.id) if isinstance(a, ast.Name) else ("dag" if _is_node_op(a) else norm(a))
        for kw in call.keywords:
            if kw.arg:
                out[kw.arg] = env.get(kw.value.id, kw.value.id) if isinstance(kw.value, ast.Name) else norm(kw.value)
        return out

    def local_ops(self, fn: ast.FunctionDef, env: Dict[str, str]) -> Dict[str, str]:
        """locals bound to the node's current operation keep their own name (they denote the operation *as read*); reads of
        dag.nodes[..]['op'] inside key expressions themselves are owner 'dag'"""
        out = dict(env)
        for a in ast.walk(fn):
            if isinstance(a, ast.Assign) and len(a.targets) == 1 and isinstance(a.targets[0], ast.Name) and _is_node_op(a.value):
                out.setdefault(a.targets[0].id, f"read@{fn.name}:{a.targets[0].id}")
        return out

    def events(self, fn: ast.FunctionDef, env: Optional[Dict[str, str]] = None, depth: int = 0) -> List[Tuple]:
        from ..core import unroll_literal_loops
        fn = unroll_literal_loops(fn)    # a table-driven `for op, update in ((old, remove), (new, append))` reads as the two blocks
        env = self.local_ops(fn, env or {})
        evs: List[Tuple] = []

        def visit(stmts):
            for st in stmts:
                if isinstance(st, ast.For):
                    kl = self.key_list(st.iter, fn, env, depth)
                    handled = False
                    if kl is not None and isinstance(st.target, ast.Name):
                        for c in [x for x in ast.walk(st) if isinstance(x, ast.Call)]:
                            if call_name(c) in ("self._node_dict_append", "self._node_dict_remove") and c.args and norm(c.args[0]) == st.target.id:
                                evs.append(("append" if call_name(c).endswith("append") else "remove", kl, st.lineno))
                                handled = True
                    if not handled:
                        visit(st.body)
                    continue
                if isinstance(st, (ast.If, ast.With, ast.Try, ast.While)):
                    for blk in ("body", "orelse", "finalbody"):
                        visit(getattr(st, blk, []) or [])
                    for h in getattr(st, "handlers", []) or []:
                        visit(h.body)
                    continue
                # a read of the node's operation into a local *at this point in time*
                if isinstance(st, ast.Assign) and len(st.targets) == 1 and isinstance(st.targets[0], ast.Name) and _is_node_op(st.value):
                    evs.append(("read", st.targets[0].id, st.lineno))
                if isinstance(st, ast.Assign) and any(_is_node_op(t) for t in st.targets):
                    v = st.value
                    evs.append(("store", env.get(v.id, v.id) if isinstance(v, ast.Name) else norm(v), st.lineno))
                    continue
                for c in [x for x in ast.walk(st) if isinstance(x, ast.Call)]:
                    cn = call_name(c) or ""
                    if cn in ("self._node_dict_append", "self._node_dict_remove") and c.args:
                        evs.append(("append" if cn.endswith("append") else "remove", self.key_kinds(c.args[0], fn, env), st.lineno))
                    elif cn.startswith("self.dag.") and call_attr(c) in ("add_node", "remove_node"):
                        evs.append(("dag-" + call_attr(c), None, st.lineno))
                    elif cn.startswith("self.") and cn.count(".") == 1 and call_attr(c) in self.methods and depth < 3 \
                            and call_attr(c) not in ("_node_dict_append", "_node_dict_remove"):
                        h = self.methods[call_attr(c)]
                        if any((call_name(x) or "") in ("self._node_dict_append", "self._node_dict_remove") or
                               ((call_name(x) or "").startswith("self.") and call_attr(x) in ("_register_node", "_unregister_node"))
                               for x in ast.walk(h) if isinstance(x, ast.Call)) or self._touches_index(h, 0):
                            # the helper's events happen at the position of this call
                            for ev in self.events(h, self.bind(h, c, env), depth + 1):
                                if ev[0] != "read":
                                    evs.append((ev[0], ev[1], st.lineno))
        visit(fn.body)
        return evs

    def _touches_index(self, h: ast.FunctionDef, d: int) -> bool:
        if d > 2:
            return False
        for x in ast.walk(h):
            if isinstance(x, ast.Call):
                cn = call_name(x) or ""
                if cn in ("self._node_dict_append", "self._node_dict_remove"):
                    return True
                if cn.startswith("self.") and cn.count(".") == 1 and call_attr(x) in self.methods and call_attr(x) != h.name:
                    if self._touches_index(self.methods[call_attr(x)], d + 1):
                        return True
        return False


def _collect(evs: List[Tuple], what: str) -> Dict[str, Set[str]]:
    out: Dict[str, Set[str]] = {}
    for e in evs:
        if e[0] == what:
            for kind, owner in e[1]:
                out.setdefault(owner, set()).add(kind)
    return out


def rule_nodekeys(ctx: Ctx) -> None:
    """sibling.nodekeys: _add_node files a node under every label, the class name and the register-type description of its operation;
    _remove_node takes it out of exactly those; replace_op takes the node out of the keys of the *old* operation and files it under
    the keys of the *new* one.  Helpers are followed.  Keys computed from "the operation the node holds now" describe the old
    operation only before `dag.nodes[node]["op"] = new` and the new one only after it."""
    repo = ctx.repo
    m = repo.module(DAG)
    cls = repo.cls("CircuitDAG", DAG)
    sm = _Summ(repo, cls)
    # ---- _add_node
    fn = repo.anchor(DAG, "CircuitDAG._add_node")
    ctx.touch(m, fn)
    evs = sm.events(fn)
    app = _collect(evs, "append")
    opn = func_params(fn)[2] if len(func_params(fn)) > 2 else "operation"
    got = set().union(*[v for k, v in app.items() if k in (opn, "dag") or k.startswith("read@")]) if app else set()
    if not app:
        raise AnalysisError("CircuitDAG._add_node: no node_dict update found (directly or through a helper)")
    if got >= WANT:
        ctx.ok_abstract("sibling.nodekeys", "CircuitDAG._add_node: files the node under labels / type / regtypes of its operation")
    else:
        ctx.fail("sibling.nodekeys", m, fn, f"CircuitDAG._add_node files the new node under {sorted(got)} only; the missing kind {sorted(WANT - got)} leaves the node "
                 f"invisible to every query by that key", func="CircuitDAG._add_node", construct=f"CircuitDAG._add_node: _node_dict_append kinds {sorted(got)}")
    # ---- _remove_node
    fn = repo.anchor(DAG, "CircuitDAG._remove_node")
    ctx.touch(m, fn)
    evs = sm.events(fn)
    rem = _collect(evs, "remove")
    if not rem:
        raise AnalysisError("CircuitDAG._remove_node: no node_dict update found (directly or through a helper)")
    got = set().union(*rem.values())
    if got >= WANT:
        ctx.ok_abstract("sibling.nodekeys", "CircuitDAG._remove_node: removes labels / type / regtypes")
    else:
        ctx.fail("sibling.nodekeys", m, fn, f"CircuitDAG._remove_node calls _node_dict_remove for {sorted(got)} only; the missing kind {sorted(WANT - got)} leaves a stale "
                 f"node_dict entry", func="CircuitDAG._remove_node", construct=f"CircuitDAG._remove_node: _node_dict_remove kinds {sorted(got)}")
    # the removal reads the operation from the graph: it must precede dag.remove_node
    rm_line = next((e[2] for e in evs if e[0] == "dag-remove_node"), None)
    late = [e for e in evs if e[0] == "remove" and rm_line is not None and e[2] > rm_line and any(o == "dag" for _, o in e[1])]
    if late:
        ctx.fail("sibling.nodekeys", m, fn, "CircuitDAG._remove_node reads the node's operation for the index update after the node was removed from the graph",
                 func="CircuitDAG._remove_node", construct="CircuitDAG._remove_node: index update after dag.remove_node")
    # ---- replace_op
    fn = repo.anchor(DAG, "CircuitDAG.replace_op")
    ctx.touch(m, fn)
    evs = sm.events(fn)
    newp = func_params(fn)[2]
    stores = [e for e in evs if e[0] == "store"]
    if len(stores) != 1:
        raise AnalysisError("CircuitDAG.replace_op: the store of the new operation into the node was not found (exactly one expected)")
    s_line = stores[0][2]
    if stores[0][1] != newp:
        ctx.fail("sibling.nodekeys", m, fn, f"replace_op stores `{stores[0][1]}` into the node, not its parameter `{newp}`", func="CircuitDAG.replace_op",
                 construct="CircuitDAG.replace_op: stored operation")
    reads = {e[1]: e[2] for e in evs if e[0] == "read"}
    old_kinds: Set[str] = set()
    new_kinds: Set[str] = set()
    bad: List[str] = []
    for e in evs:
        if e[0] not in ("remove", "append"):
            continue
        for kind, owner in e[1]:
            # which operation do these keys describe at the time they are computed?
            if owner == newp:
                who = "new"
            elif owner.startswith(f"read@{fn.name}:") and owner.split(":", 1)[1] in reads:
                # a local of replace_op bound to the node's operation: it denotes the operation that was there when it was read
                who = "old" if reads[owner.split(":", 1)[1]] < s_line else "new"
            elif owner == "dag" or owner.startswith("read@"):
                # read inside a helper, i.e. at the position of the call (e[2])
                who = "old" if e[2] < s_line else "new"
            elif owner in reads:
                who = "old" if reads[owner] < s_line else "new"
            else:
                who = "?"
            if e[0] == "remove":
                if who == "old":
                    old_kinds.add(kind)
                elif who == "new":
                    bad.append(f"the {kind} key removed at line {e[2]} is computed from the operation the node holds *after* the new one was stored: "
                               f"the new operation's key is removed and the old one's stays")
            else:
                if who == "new":
                    new_kinds.add(kind)
                elif who == "old":
                    bad.append(f"the {kind} key appended at line {e[2]} is computed from the *old* operation")
    for b in sorted(set(bad)):
        ctx.fail("sibling.nodekeys", m, fn, f"replace_op: {b}", func="CircuitDAG.replace_op", construct=f"CircuitDAG.replace_op: {b[:60]}")
    if not bad:
        for label, got_, helper in (("old", old_kinds, "_node_dict_remove"), ("new", new_kinds, "_node_dict_append")):
            if got_ >= WANT:
                ctx.ok_abstract("sibling.nodekeys", f"CircuitDAG.replace_op: {helper} maintains labels/type/regtypes of the {label} operation")
            else:
                ctx.fail("sibling.nodekeys", m, fn,
                         f"CircuitDAG.replace_op calls {helper} for {sorted(got_)} of the {label} operation; its siblings maintain three key kinds (every label, "
                         f"the type name, the register-type description) — the missing kind {sorted(WANT - got_)} leaves a stale / missing node_dict entry",
                         func="CircuitDAG.replace_op", construct=f"CircuitDAG.replace_op: {helper} kinds {sorted(got_)}")


def index_helpers(repo: Repo) -> Dict[str, Set[str]]:
    """method name -> {'_node_dict_append', '_node_dict_remove', '_edge_dict_append', '_edge_dict_remove'} it reaches through self.* calls"""
    cls = repo.cls("CircuitDAG", DAG)
    ms = cls.methods()
    prim = {"_node_dict_append", "_node_dict_remove", "_edge_dict_append", "_edge_dict_remove"}
    out: Dict[str, Set[str]] = {k: set() for k in ms}
    changed = True
    while changed:
        changed = False
        for name, fn in ms.items():
            for c in calls_in(fn):
                cn = call_name(c) or ""
                if cn.startswith("self.") and cn.count(".") == 1:
                    a = call_attr(c)
                    add = {a} if a in prim else out.get(a, set())
                    if not add <= out[name]:
                        out[name] |= add
                        changed = True
    return out
