"""Direction calculus for list-order conventions (DESIGN §3 F1)."""
from __future__ import annotations

import ast
from typing import List, Optional, Tuple

from ..core import call_attr, norm, parent


def iter_direction(it: ast.AST) -> Tuple[Optional[str], int]:
    """(base expression text, +1 forward / -1 reversed) of a loop iterable; base None if not recognised."""
    if isinstance(it, ast.Subscript) and isinstance(it.slice, ast.Slice) and it.slice.lower is None and it.slice.upper is None \
            and it.slice.step is not None and norm(it.slice.step) == "-1":
        b, d = iter_direction(it.value)
        return b, -d
    if isinstance(it, ast.Call) and isinstance(it.func, ast.Name) and it.func.id == "reversed" and len(it.args) == 1:
        b, d = iter_direction(it.args[0])
        return b, -d
    if isinstance(it, ast.Call) and isinstance(it.func, ast.Name) and it.func.id in ("enumerate", "list", "tuple") and it.args:
        return iter_direction(it.args[0])
    if isinstance(it, ast.Call) and isinstance(it.func, ast.Name) and it.func.id == "range":
        # range(len(x)) forward / range(len(x)-1, -1, -1) reversed
        if len(it.args) == 1:
            a = it.args[0]
            if isinstance(a, ast.Call) and isinstance(a.func, ast.Name) and a.func.id == "len":
                return norm(a.args[0]), 1
        if len(it.args) == 3 and norm(it.args[2]) == "-1":
            return None, -1
        return None, 1
    return norm(it), 1


def accumulation_side(stmt: ast.stmt, var: str) -> Optional[int]:
    """+1 if ``stmt`` appends to ``var`` (var += x, var = var + x, var.append(x), var = var @ x),
    -1 if it prepends (var = x + var, var.insert(0, x), var = x @ var), None otherwise."""
    if isinstance(stmt, ast.AugAssign) and norm(stmt.target) == var and isinstance(stmt.op, (ast.Add, ast.MatMult)):
        return 1
    if isinstance(stmt, ast.Assign) and len(stmt.targets) == 1 and norm(stmt.targets[0]) == var and isinstance(stmt.value, ast.BinOp) \
            and isinstance(stmt.value.op, (ast.Add, ast.MatMult)):
        l, r = norm(stmt.value.left), norm(stmt.value.right)
        if l == var and r != var:
            return 1
        if r == var and l != var:
            return -1
        # left-nested chains: (var + a) + b  /  a + (b + var)
        if l.startswith(var + " ") or l.startswith("(" + var + " "):
            return 1
        if r.endswith(" " + var) or r.endswith(" " + var + ")"):
            return -1
    if isinstance(stmt, ast.Expr) and isinstance(stmt.value, ast.Call) and isinstance(stmt.value.func, ast.Attribute) \
            and norm(stmt.value.func.value) == var:
        a = stmt.value.func.attr
        if a in ("append", "extend"):
            return 1
        if a == "insert" and stmt.value.args and norm(stmt.value.args[0]) == "0":
            return -1
    return None


def loop_accumulations(fn: ast.AST, var: str) -> List[Tuple[ast.For, ast.stmt, int, int]]:
    """All (loop, statement, iteration direction, accumulation side) where ``var`` is accumulated inside a for loop."""
    out = []
    for loop in [n for n in ast.walk(fn) if isinstance(n, ast.For)]:
        _, d = iter_direction(loop.iter)
        for st in ast.walk(loop):
            if isinstance(st, ast.stmt):
                s = accumulation_side(st, var)
                if s is not None:
                    # innermost loop only
                    inner = st
                    p = parent(inner)
                    while p is not None and not isinstance(p, ast.For):
                        p = parent(p)
                    if p is loop:
                        out.append((loop, st, d, s))
    return out
