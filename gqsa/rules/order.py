"""Direction calculus for list-order conventions (DESIGN §3 F1)."""
from __future__ import annotations

import ast
from typing import Dict, List, Optional, Tuple

from ..core import AnalysisError, call_attr, norm, parent, short
from ..report import Ctx


def iter_direction(it: ast.AST) -> Tuple[Optional[str], int]:
    """(base expression text, +1 forward / -1 reversed) of a loop iterable; base None if not recognised."""
    if isinstance(it, ast.Subscript) and isinstance(it.slice, ast.Slice) and it.slice.lower is None and it.slice.upper is None \
            and it.slice.step is not None and norm(it.slice.step) == "-1":
        b, d = iter_direction(it.value)
        return b, -d
    if isinstance(it, ast.Call) and isinstance(it.func, ast.Name) and it.func.id == "reversed" and len(it.args) == 1:
        b, d = iter_direction(it.args[0])
        return b, -d
    if isinstance(it, ast.Call) and isinstance(it.func, ast.Name) and it.func.id in ("enumerate", "list", "tuple") and it.args:
        return iter_direction(it.args[0])
    if isinstance(it, ast.Call) and isinstance(it.func, ast.Name) and it.func.id == "range":
        # range(len(x)) forward / range(len(x)-1, -1, -1) reversed
        if len(it.args) == 1:
            a = it.args[0]
            if isinstance(a, ast.Call) and isinstance(a.func, ast.Name) and a.func.id == "len":
                return norm(a.args[0]), 1
        if len(it.args) == 3 and norm(it.args[2]) == "-1":
            return None, -1
        return None, 1
    return norm(it), 1


def accumulation_side(stmt: ast.stmt, var: str) -> Optional[int]:
    """+1 if ``stmt`` appends to ``var`` (var += x, var = var + x, var.append(x), var = var @ x),
    -1 if it prepends (var = x + var, var.insert(0, x), var = x @ var), None otherwise."""
    if isinstance(stmt, ast.AugAssign) and norm(stmt.target) == var and isinstance(stmt.op, (ast.Add, ast.MatMult)):
        return 1
    if isinstance(stmt, ast.Assign) and len(stmt.targets) == 1 and norm(stmt.targets[0]) == var and isinstance(stmt.value, ast.BinOp) \
            and isinstance(stmt.value.op, (ast.Add, ast.MatMult)):
        l, r = norm(stmt.value.left), norm(stmt.value.right)
        if l == var and r != var:
            return 1
        if r == var and l != var:
            return -1
        # left-nested chains: (var + a) + b  /  a + (b + var)
        if l.startswith(var + " ") or l.startswith("(" + var + " "):
            return 1
        if r.endswith(" " + var) or r.endswith(" " + var + ")"):
            return -1
    if isinstance(stmt, ast.Expr) and isinstance(stmt.value, ast.Call) and isinstance(stmt.value.func, ast.Attribute) \
            and norm(stmt.value.func.value) == var:
        a = stmt.value.func.attr
        if a in ("append", "extend"):
            return 1
        if a == "insert" and stmt.value.args and norm(stmt.value.args[0]) == "0":
            return -1
    return None


def loop_accumulations(fn: ast.AST, var: str) -> List[Tuple[ast.For, ast.stmt, int, int]]:
    """All (loop, statement, iteration direction, accumulation side) where ``var`` is accumulated inside a for loop."""
    out = []
    for loop in [n for n in ast.walk(fn) if isinstance(n, ast.For)]:
        _, d = iter_direction(loop.iter)
        for st in ast.walk(loop):
            if isinstance(st, ast.stmt):
                s = accumulation_side(st, var)
                if s is not None:
                    # innermost loop only
                    inner = st
                    p = parent(inner)
                    while p is not None and not isinstance(p, ast.For):
                        p = parent(p)
                    if p is loop:
                        out.append((loop, st, d, s))
    return out


# --------------------------------------------------------------------------- order.topological (consumers that re-emit the operations)

def rule_sequence_source(ctx: Ctx, sites: List[Tuple[str, str]]) -> None:
    """order.topological: a method that re-emits the circuit's operations one by one (JSON / openQASM export, the noise-annotated or
    plain copy) walks `self.sequence(...)` — the topological order, i.e. an application order.  Node-creation order
    (`self.dag.nodes`, sorted node ids, node_dict lists) equals an application order only for circuits built with add() alone:
    insert_at / group_one_qubit_gates / the solvers place later-created nodes earlier in the circuit."""
    repo = ctx.repo
    n = 0
    for rel, q in sites:
        m = repo.module(rel)
        fn = repo.anchor(rel, q)
        ctx.touch(m, fn)
        env: Dict[str, ast.AST] = {}
        for a in ast.walk(fn):
            if isinstance(a, ast.Assign) and len(a.targets) == 1 and isinstance(a.targets[0], ast.Name):
                env.setdefault(a.targets[0].id, a.value)

        def src_of(e: ast.AST, depth: int = 0) -> str:
            t = norm(e)
            if ".sequence(" in t or "_slim_seq(" in t:
                return "sequence"
            if "topological_sort" in t:
                return "sequence"
            if ".dag.nodes" in t or "node_dict" in t or ".dag)" in t or t.endswith(".dag"):
                return "nodes"
            if isinstance(e, ast.Name) and e.id in env and depth < 4:
                return src_of(env[e.id], depth + 1)
            for ch in ast.iter_child_nodes(e):
                r = src_of(ch, depth + 1) if depth < 6 else "?"
                if r in ("sequence", "nodes"):
                    return r
            return "?"

        its = [(l, l.iter) for l in ast.walk(fn) if isinstance(l, ast.For)] + \
              [(c, g.iter) for c in ast.walk(fn) if isinstance(c, (ast.ListComp, ast.GeneratorExp)) for g in c.generators]
        srcs = [(node, src_of(it)) for node, it in its]
        seqs = [x for x in srcs if x[1] == "sequence"]
        nodes = [x for x in srcs if x[1] == "nodes"]
        n += 1
        if nodes:
            ctx.fail("order.topological", m, nodes[0][0],
                     f"{q} enumerates the operations from `{short(nodes[0][0].iter if isinstance(nodes[0][0], ast.For) else nodes[0][0], 70)}` (node-creation "
                     f"order) instead of self.sequence(): for a circuit edited with insert_at / group_one_qubit_gates, or produced by a solver, the "
                     f"operations are re-emitted in an order that is not an application order, so the exported / copied circuit compiles to a "
                     f"different state", func=q, construct=f"{q}: operations enumerated in node-creation order")
        elif seqs:
            ctx.ok("order.topological", m, seqs[0][0], what=f"{q} walks self.sequence()")
        else:
            raise AnalysisError(f"{q}: no loop over the circuit's operations recognised")
    if n == 0:
        raise AnalysisError("order.topological: no site")
