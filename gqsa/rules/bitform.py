"""Bit formulas of the tableau primitives, decided by abstract interpretation over GF(2) polynomials.

The three primitives hadamard_gate / phase_gate / cnot_gate update one generic row of the tableau: the bits of the row at the
touched qubit(s) are symbols (x_q, z_q, r), the body is interpreted statement by statement with values in the ring of GF(2)
polynomials in algebraic normal form (a set of monomials), and the resulting map (x', z', r') is compared with the conjugation
table of the gate the function's name denotes, taken from the checker's own matrix model (gqsa/clifford.py).  ANF is a canonical
form, so the comparison is exact.  g_function is a total function on four bits written as an if-chain: its decision table is
unfolded by the constant folder and compared with the phases of the sixteen Pauli products.  row_sum is checked for its shape:
which entries feed g_function, the linear form of the combined phase, the modulus and the split into sign and i-phase."""
from __future__ import annotations

import ast
import itertools
from typing import Dict, FrozenSet, List, Optional, Tuple

from .. import clifford as cl
from ..core import AnalysisError, Module, Repo, call_attr, call_name, calls_in, func_params, get_kw, norm, short
from ..report import Ctx

TRANSFORM = "graphiq/backends/stabilizer/functions/transformation.py"
LINALG = "graphiq/backends/stabilizer/functions/linalg.py"

Mono = FrozenSet[str]
Poly = FrozenSet[Mono]

ZERO: Poly = frozenset()
ONE: Poly = frozenset([frozenset()])


def var(n: str) -> Poly:
    return frozenset([frozenset([n])])


def p_xor(a: Poly, b: Poly) -> Poly:
    return a ^ b


def p_and(a: Poly, b: Poly) -> Poly:
    out = set()
    for m1 in a:
        for m2 in b:
            out ^= {m1 | m2}
    return frozenset(out)


def p_eval(p: Poly, env: Dict[str, int]) -> int:
    return sum(all(env[v] for v in m) for m in p) % 2


def p_str(p: Poly) -> str:
    if not p:
        return "0"
    return " ^ ".join("&".join(sorted(m)) if m else "1" for m in sorted(p, key=lambda m: (len(m), sorted(m))))


class Unmodelled(Exception):
    pass


# ----------------------------------------------------------------------------------------------------------------- helper shapes


def _helper_semantics(repo: Repo) -> Dict[str, str]:
    """What the column/row helpers of linalg.py do, read off their bodies: 'xor-into-second', 'swap', 'and'."""
    m = repo.module(LINALG)
    out: Dict[str, str] = {}
    for name in ("add_columns", "add_rows"):
        fn = m.find(name)
        if fn is None:
            continue
        ps = func_params(fn)
        if len(ps) != 3:
            continue
        M, a, b = ps
        col = name == "add_columns"

        def ref(i):
            return f"{M}[:, {i}]" if col else f"{M}[{i}]"
        # tmp = (M[a] + M[b]) % 2 (or ^);  M[b] = tmp[.astype(int)]
        stores = [s for s in ast.walk(fn) if isinstance(s, ast.Assign) and isinstance(s.targets[0], ast.Subscript) and norm(s.targets[0].value) == M]
        if len(stores) != 1:
            continue
        tgt = norm(stores[0].targets[0])
        val = stores[0].value
        defs = {norm(s.targets[0]): s.value for s in ast.walk(fn) if isinstance(s, ast.Assign) and isinstance(s.targets[0], ast.Name)}
        seen = 0
        while seen < 5:
            seen += 1
            if isinstance(val, ast.Call) and call_attr(val) == "astype":
                val = val.func.value
            elif isinstance(val, ast.Name) and val.id in defs:
                val = defs[val.id]
            else:
                break
        ok = False
        if isinstance(val, ast.BinOp) and isinstance(val.op, ast.Mod) and isinstance(val.right, ast.Constant) and val.right.value == 2 \
                and isinstance(val.left, ast.BinOp) and isinstance(val.left.op, ast.Add):
            ok = {norm(val.left.left), norm(val.left.right)} == {ref(a), ref(b)}
        elif isinstance(val, ast.BinOp) and isinstance(val.op, ast.BitXor):
            ok = {norm(val.left), norm(val.right)} == {ref(a), ref(b)}
        if ok and tgt == ref(b):
            out[name] = "xor-into-second"
        elif ok and tgt == ref(a):
            out[name] = "xor-into-first"
    for name in ("column_swap", "row_swap"):
        fn = m.find(name)
        if fn is None:
            continue
        ps = func_params(fn)
        if len(ps) != 3:
            continue
        M, a, b = ps
        col = name == "column_swap"
        stores = [s for s in ast.walk(fn) if isinstance(s, ast.Assign) and isinstance(s.targets[0], ast.Subscript) and norm(s.targets[0].value) == M]
        if len(stores) == 1:
            l, r = norm(stores[0].targets[0]), norm(stores[0].value)
            f = (lambda i, j: f"{M}[:, [{i}, {j}]]") if col else (lambda i, j: f"{M}[[{i}, {j}]]")
            if (l, r) in ((f(a, b), f(b, a)), (f(b, a), f(a, b))):
                out[name] = "swap"
    fn = m.find("multiply_columns")
    if fn is not None:
        ps = func_params(fn)
        rets = [r for r in ast.walk(fn) if isinstance(r, ast.Return) and r.value is not None]
        defs = {norm(s.targets[0]): s.value for s in ast.walk(fn) if isinstance(s, ast.Assign) and isinstance(s.targets[0], ast.Name)}
        if len(ps) == 4 and len(rets) == 1:
            v = rets[0].value
            if isinstance(v, ast.Name) and v.id in defs:
                v = defs[v.id]
            A, B, i, j = ps
            want = {f"{A}[:, {i}]", f"{B}[:, {j}]"}
            if isinstance(v, ast.Call) and (call_name(v) or "") in ("np.multiply", "numpy.multiply", "np.logical_and", "np.bitwise_and") and len(v.args) == 2 \
                    and {norm(v.args[0]), norm(v.args[1])} == want:
                out["multiply_columns"] = "and"
            elif isinstance(v, ast.BinOp) and isinstance(v.op, (ast.Mult, ast.BitAnd)) and {norm(v.left), norm(v.right)} == want:
                out["multiply_columns"] = "and"
    return out


def rule_helper_shape(ctx: Ctx) -> None:
    """prim.helper: add_columns / add_rows store the mod-2 sum of both operands into the *second* index, column_swap / row_swap
    exchange the two, multiply_columns is the element-wise product of column i of the first and column j of the second matrix."""
    repo = ctx.repo
    m = repo.module(LINALG)
    sem = _helper_semantics(repo)
    want = {"add_columns": "xor-into-second", "add_rows": "xor-into-second", "column_swap": "swap", "row_swap": "swap", "multiply_columns": "and"}
    for name, w in want.items():
        fn = m.find(name)
        if fn is None:
            raise AnalysisError(f"prim.helper: {LINALG}::{name} missing")
        ctx.touch(m, fn)
        got = sem.get(name)
        if got == w:
            ctx.ok("prim.helper", m, fn, what=f"{name}: {w}")
        elif got is None:
            ctx.fail("prim.helper", m, fn, f"{name} does not have the shape its callers rely on ({w}): every tableau primitive is built on it",
                     func=name, construct=f"{name}: shape not {w}")
        else:
            ctx.fail("prim.helper", m, fn, f"{name} is {got}, its callers rely on {w}", func=name, construct=f"{name}: {got}")


# ----------------------------------------------------------------------------------------------------------------- primitives


class _RowModel:
    """One generic tableau row; columns are addressed as ('x'|'z', qubit-parameter-name)."""

    def __init__(self, fn: ast.FunctionDef, helpers: Dict[str, str]):
        self.fn = fn
        self.helpers = helpers
        ps = func_params(fn)
        self.tab = ps[0]
        self.qs = ps[1:]
        self.cols: Dict[Tuple[str, str], Poly] = {}
        for q in self.qs:
            self.cols[("x", q)] = var(f"x_{q}")
            self.cols[("z", q)] = var(f"z_{q}")
        self.phase: Poly = var("r")
        self.env: Dict[str, object] = {}

    # -- indices
    def col_index(self, e: ast.AST) -> Tuple[str, str]:
        if isinstance(e, ast.Name):
            if e.id in self.qs:
                return ("x", e.id)
            v = self.env.get(e.id)
            if isinstance(v, tuple) and v and v[0] == "idx":
                return v[1]
        if isinstance(e, ast.BinOp) and isinstance(e.op, ast.Add):
            l, r = e.left, e.right
            for a, b in ((l, r), (r, l)):
                if self.is_n(a) and isinstance(b, ast.Name) and b.id in self.qs:
                    return ("z", b.id)
        raise Unmodelled(f"column index `{norm(e)}`")

    def is_n(self, e: ast.AST) -> bool:
        if isinstance(e, ast.Name) and self.env.get(e.id) == "N":
            return True
        return isinstance(e, ast.Attribute) and e.attr == "n_qubits" and norm(e.value) == self.tab

    def is_table(self, e: ast.AST) -> bool:
        if isinstance(e, ast.Name) and self.env.get(e.id) == "TABLE":
            return True
        return isinstance(e, ast.Attribute) and e.attr in ("table", "_table") and norm(e.value) == self.tab

    def is_phase(self, e: ast.AST) -> bool:
        if isinstance(e, ast.Name) and self.env.get(e.id) == "PHASE":
            return True
        return isinstance(e, ast.Attribute) and e.attr in ("phase", "_phase") and norm(e.value) == self.tab

    # -- values
    def value(self, e: ast.AST) -> Poly:
        if isinstance(e, ast.Constant) and e.value in (0, 1, True, False):
            return ONE if e.value else ZERO
        if isinstance(e, ast.Name):
            v = self.env.get(e.id)
            if isinstance(v, frozenset):
                return v
            if isinstance(v, tuple) and v and v[0] == "view":
                return self.cols[v[1]]  # a slice of the table is a view: it shows the column as it is *now*
            raise Unmodelled(f"name `{e.id}`")
        if self.is_phase(e):
            return self.phase
        if isinstance(e, ast.Subscript) and self.is_table(e.value):
            sl = e.slice
            if isinstance(sl, ast.Tuple) and len(sl.elts) == 2 and isinstance(sl.elts[0], ast.Slice) and sl.elts[0].lower is None and sl.elts[0].upper is None:
                return self.cols[self.col_index(sl.elts[1])]
            raise Unmodelled(f"subscript `{norm(e)}`")
        if isinstance(e, ast.BinOp):
            if isinstance(e.op, ast.BitXor):
                return p_xor(self.value(e.left), self.value(e.right))
            if isinstance(e.op, (ast.Mult, ast.BitAnd)):
                return p_and(self.value(e.left), self.value(e.right))
            if isinstance(e.op, ast.BitOr):
                a, b = self.value(e.left), self.value(e.right)
                return p_xor(p_xor(a, b), p_and(a, b))
            if isinstance(e.op, ast.Mod) and isinstance(e.right, ast.Constant) and e.right.value == 2 and isinstance(e.left, ast.BinOp) \
                    and isinstance(e.left.op, (ast.Add, ast.Sub)):
                return p_xor(self.value(e.left.left), self.value(e.left.right))
            raise Unmodelled(f"operator in `{short(e)}`")
        if isinstance(e, ast.Call):
            cn = call_name(e) or ""
            at = call_attr(e)
            if at == "multiply_columns" and len(e.args) == 4 and self.is_table(e.args[0]) and self.is_table(e.args[1]):
                if self.helpers.get("multiply_columns") != "and":
                    raise Unmodelled("multiply_columns has an unrecognised body")
                return p_and(self.cols[self.col_index(e.args[2])], self.cols[self.col_index(e.args[3])])
            if cn in ("np.multiply", "np.logical_and", "np.bitwise_and") and len(e.args) == 2:
                return p_and(self.value(e.args[0]), self.value(e.args[1]))
            if cn in ("np.logical_xor", "np.bitwise_xor") and len(e.args) == 2:
                return p_xor(self.value(e.args[0]), self.value(e.args[1]))
            if at in ("astype", "copy") and isinstance(e.func, ast.Attribute):
                return self.value(e.func.value)
            if cn in ("np.zeros_like", "np.zeros") or (cn in ("np.full_like",) and len(e.args) > 1 and isinstance(e.args[1], ast.Constant) and e.args[1].value == 0):
                return ZERO
            if cn in ("np.ones_like", "np.ones"):
                return ONE
            raise Unmodelled(f"call `{short(e)}`")
        raise Unmodelled(f"expression `{short(e)}`")

    def table_op(self, c: ast.Call) -> bool:
        at = call_attr(c)
        if at in ("add_columns", "column_swap") and len(c.args) == 3 and self.is_table(c.args[0]):
            i, j = self.col_index(c.args[1]), self.col_index(c.args[2])
            sem = self.helpers.get(at)
            if sem == "xor-into-second":
                self.cols[j] = p_xor(self.cols[i], self.cols[j])
            elif sem == "xor-into-first":
                self.cols[i] = p_xor(self.cols[i], self.cols[j])
            elif sem == "swap":
                self.cols[i], self.cols[j] = self.cols[j], self.cols[i]
            else:
                raise Unmodelled(f"{at} has an unrecognised body")
            return True
        return False

    def run(self, stop_at_other_return: bool = False):
        for st in self.fn.body:
            if stop_at_other_return and isinstance(st, ast.Return) and st.value is not None and norm(st.value) != self.tab:
                return st
            if isinstance(st, ast.Expr) and isinstance(st.value, ast.Constant):
                continue
            if isinstance(st, ast.Assert):
                continue
            if isinstance(st, ast.Return):
                if st.value is not None and norm(st.value) == self.tab:
                    return
                raise Unmodelled(f"return `{short(st)}`")
            if isinstance(st, ast.Expr) and isinstance(st.value, ast.Call) and self.table_op(st.value):
                continue
            if isinstance(st, ast.AugAssign) and self.is_phase(st.target) and isinstance(st.op, ast.BitXor):
                self.phase = p_xor(self.phase, self.value(st.value))
                continue
            if isinstance(st, ast.Assign) and len(st.targets) == 1:
                t, v = st.targets[0], st.value
                if self.is_phase(t):
                    self.phase = self.value(v)
                    continue
                if self.is_table(t) or (isinstance(t, ast.Name) and self.env.get(t.id) == "TABLE"):
                    if isinstance(v, ast.Call) and self.table_op(v):
                        continue
                    if self.is_table(v):
                        continue
                    raise Unmodelled(f"table update `{short(st)}`")
                if isinstance(t, ast.Subscript) and self.is_table(t.value):
                    sl = t.slice
                    if isinstance(sl, ast.Tuple) and len(sl.elts) == 2 and isinstance(sl.elts[0], ast.Slice):
                        self.cols[self.col_index(sl.elts[1])] = self.value(v)
                        continue
                    raise Unmodelled(f"table store `{short(st)}`")
                if isinstance(t, ast.Name):
                    if self.is_n(v):
                        self.env[t.id] = "N"
                    elif self.is_table(v):
                        self.env[t.id] = "TABLE"
                    elif isinstance(v, ast.Subscript) and self.is_table(v.value):
                        sl = v.slice
                        if isinstance(sl, ast.Tuple) and len(sl.elts) == 2 and isinstance(sl.elts[0], ast.Slice):
                            self.env[t.id] = ("view", self.col_index(sl.elts[1]))
                        else:
                            raise Unmodelled(f"`{short(st)}`")
                    else:
                        try:
                            self.env[t.id] = ("idx", self.col_index(v))
                        except Unmodelled:
                            self.env[t.id] = self.value(v)
                    continue
            raise Unmodelled(f"statement `{short(st)}`")
        raise Unmodelled("no return of the tableau")


_LETTER = {(0, 0): "I", (1, 0): "X", (0, 1): "Z", (1, 1): "Y"}


def _conj_table(u, n: int) -> Dict[Tuple[int, ...], Tuple[Tuple[int, ...], int]]:
    """(x_1, z_1, ..) -> ((x_1', z_1', ..), sign bit) for P -> U P U^dagger, +Y == (1, 1)."""
    ps = cl.paulis(n)
    ud = cl.dag(u)
    inv = {v: k for k, v in _LETTER.items()}
    out = {}
    for bits in itertools.product((0, 1), repeat=2 * n):
        name = "".join(_LETTER[(bits[2 * i], bits[2 * i + 1])] for i in range(n))
        img = cl.mm(cl.mm(u, ps[name]), ud)
        for nm, p in ps.items():
            for s, sg in ((1, 0), (-1, 1)):
                if cl.close(img, cl.scale(p, s)):
                    ob = tuple(b for ch in nm for b in inv[ch])
                    out[bits] = (ob, sg)
        if bits not in out:
            raise AnalysisError("model: image of a Pauli is not a signed Pauli")
    return out


def pauli_of_mask(p: Poly, q: str) -> Optional[str]:
    """Which Pauli error on qubit q flips exactly the rows selected by the GF(2) polynomial p of that row's bits (None: no Pauli does)."""
    x, z = var(f"x_{q}"), var(f"z_{q}")
    return {ZERO: "I", z: "X", x: "Z", p_xor(x, z): "Y"}.get(p)


def mask_list(fn: ast.FunctionDef, helpers: Dict[str, str]) -> Tuple[str, List[Poly]]:
    """For a helper `f(tableau, qubit)` that returns a list of row masks built from the tableau's columns at that qubit: the qubit
    parameter and the masks as GF(2) polynomials of one row's bits."""
    rm = _RowModel(fn, helpers)
    if len(rm.qs) != 1:
        raise Unmodelled("helper does not take (tableau, qubit)")
    ret = rm.run(stop_at_other_return=True)
    if ret is None or not isinstance(ret.value, (ast.List, ast.Tuple)):
        raise Unmodelled("helper does not return a list of masks")
    return rm.qs[0], [rm.value(e) for e in ret.value.elts]


PRIMS = {"hadamard_gate": (1, cl.H, "H"), "phase_gate": (1, cl.P, "P"), "cnot_gate": (2, cl.CNOT, "CNOT")}


def rule_prim_formula(ctx: Ctx) -> None:
    """prim.formula: the column and sign updates of hadamard_gate, phase_gate, cnot_gate are, as GF(2) polynomials in the bits of a
    generic row, exactly the conjugation action of H, P, CNOT (control = first qubit parameter) on signed Paulis."""
    repo = ctx.repo
    m = repo.module(TRANSFORM)
    helpers = _helper_semantics(repo)
    for name, (n, u, label) in PRIMS.items():
        fn = m.find(name)
        if fn is None:
            raise AnalysisError(f"prim.formula: {TRANSFORM}::{name} missing")
        ctx.touch(m, fn)
        rm = _RowModel(fn, helpers)
        if len(rm.qs) != n:
            raise AnalysisError(f"prim.formula: {name} takes {len(rm.qs)} qubit parameters, expected {n}")
        try:
            rm.run()
        except Unmodelled as e:
            raise AnalysisError(f"prim.formula: {name}: cannot model {e}")
        except KeyError as e:
            raise AnalysisError(f"prim.formula: {name}: unknown column {e}")
        table = _conj_table(u, n)
        # the sign must be r ^ f(bits)
        f = p_xor(rm.phase, var("r"))
        if any("r" in mono for mono in f):
            ctx.fail("prim.formula", m, fn, f"{name}: the new sign `{p_str(rm.phase)}` is not the old sign xor a function of the row's bits",
                     func=name, construct=f"{name}: sign not r ^ f")
            continue
        bad = []
        for bits, (obits, sg) in sorted(table.items()):
            env = {"r": 0}
            for i, q in enumerate(rm.qs):
                env[f"x_{q}"], env[f"z_{q}"] = bits[2 * i], bits[2 * i + 1]
            got_bits = tuple(p_eval(rm.cols[(k, q)], env) for q in rm.qs for k in ("x", "z"))
            got_s = p_eval(f, env)
            if got_bits != obits or got_s != sg:
                pin = "".join(_LETTER[(bits[2 * i], bits[2 * i + 1])] for i in range(n))
                pw = ("-" if sg else "+") + "".join(_LETTER[(obits[2 * i], obits[2 * i + 1])] for i in range(n))
                pg = ("-" if got_s else "+") + "".join(_LETTER[(got_bits[2 * i], got_bits[2 * i + 1])] for i in range(n))
                bad.append(f"{pin} -> {pg} (should be {pw})")
        if bad:
            ctx.fail("prim.formula", m, fn,
                     f"{name} does not implement {label}: {'; '.join(bad[:4])}{' ...' if len(bad) > 4 else ''}  "
                     f"[derived: sign ^= {p_str(f)}; " + ", ".join(f"{k}_{q}' = {p_str(rm.cols[(k, q)])}" for q in rm.qs for k in ("x", "z")) + "]",
                     func=name, construct=f"{name}: not {label}")
        else:
            ctx.ok("prim.formula", m, fn, what=f"{name} == {label} on all {len(table)} Paulis: sign ^= {p_str(f)}")


# ----------------------------------------------------------------------------------------------------------------- g_function


def _unfold(fn: ast.FunctionDef, env: Dict[str, int]):
    """Value of a pure if-chain function at one point of its finite domain (constant folding with the parameters bound)."""

    def ev(e: ast.AST):
        if isinstance(e, ast.Constant) and isinstance(e.value, (int, bool)):
            return int(e.value)
        if isinstance(e, ast.Name):
            if e.id in env:
                return env[e.id]
            raise Unmodelled(f"name `{e.id}`")
        if isinstance(e, ast.UnaryOp):
            v = ev(e.operand)
            if isinstance(e.op, ast.USub):
                return -v
            if isinstance(e.op, ast.Not):
                return int(not v)
            if isinstance(e.op, ast.UAdd):
                return v
        if isinstance(e, ast.BinOp):
            a, b = ev(e.left), ev(e.right)
            ops = {ast.Add: lambda: a + b, ast.Sub: lambda: a - b, ast.Mult: lambda: a * b, ast.BitXor: lambda: a ^ b,
                   ast.BitAnd: lambda: a & b, ast.BitOr: lambda: a | b, ast.Mod: lambda: a % b, ast.FloorDiv: lambda: a // b, ast.Pow: lambda: a ** b}
            for k, f in ops.items():
                if isinstance(e.op, k):
                    return f()
        if isinstance(e, ast.BoolOp):
            vals = [ev(v) for v in e.values]
            return int(all(vals)) if isinstance(e.op, ast.And) else int(any(vals))
        if isinstance(e, ast.Compare):
            left = ev(e.left)
            for op, c in zip(e.ops, e.comparators):
                r = ev(c)
                res = {ast.Eq: left == r, ast.NotEq: left != r, ast.Lt: left < r, ast.LtE: left <= r, ast.Gt: left > r, ast.GtE: left >= r}.get(type(op))
                if res is None:
                    raise Unmodelled(f"comparison `{short(e)}`")
                if not res:
                    return 0
                left = r
            return 1
        if isinstance(e, ast.IfExp):
            return ev(e.body) if ev(e.test) else ev(e.orelse)
        raise Unmodelled(f"expression `{short(e)}`")

    def block(body) -> Optional[int]:
        for st in body:
            if isinstance(st, ast.Expr) and isinstance(st.value, ast.Constant):
                continue
            if isinstance(st, ast.Return):
                if st.value is None:
                    raise Unmodelled("bare return")
                return ev(st.value)
            if isinstance(st, ast.If):
                r = block(st.body) if ev(st.test) else block(st.orelse)
                if r is not None:
                    return r
                continue
            if isinstance(st, ast.Assign) and len(st.targets) == 1 and isinstance(st.targets[0], ast.Name):
                env[st.targets[0].id] = ev(st.value)
                continue
            if isinstance(st, ast.Assert):
                continue
            raise Unmodelled(f"statement `{short(st)}`")
        return None

    r = block(fn.body)
    if r is None:
        raise Unmodelled("falls off the end")
    return r


def rule_g_table(ctx: Ctx) -> None:
    """prim.g-table: g_function(x1, z1, x2, z2) is the exponent k (mod 4) with P1 P2 = i^k P3 for the sixteen pairs of Paulis
    (Y = (1, 1) carries no extra phase): the Aaronson-Gottesman table."""
    repo = ctx.repo
    m = repo.module(LINALG)
    fn = m.find("g_function")
    if fn is None:
        raise AnalysisError("prim.g-table: g_function missing")
    ctx.touch(m, fn)
    ps = func_params(fn)
    if len(ps) != 4:
        raise AnalysisError("prim.g-table: g_function does not take four bits")
    bad = []
    for bits in itertools.product((0, 1), repeat=4):
        a, b = cl.PAULI1[_LETTER[(bits[0], bits[1])]], cl.PAULI1[_LETTER[(bits[2], bits[3])]]
        c = cl.PAULI1[_LETTER[(bits[0] ^ bits[2], bits[1] ^ bits[3])]]
        prod = cl.mm(a, b)
        k = next(k for k in range(4) if cl.close(prod, cl.scale(c, 1j ** k)))
        try:
            got = _unfold(fn, dict(zip(ps, bits)))
        except Unmodelled as e:
            raise AnalysisError(f"prim.g-table: cannot unfold g_function: {e}")
        if (got - k) % 4 != 0:
            bad.append(f"g({_LETTER[(bits[0], bits[1])]}, {_LETTER[(bits[2], bits[3])]}) = {got}, the product carries i^{k if k < 3 else -1}")
    if bad:
        ctx.fail("prim.g-table", m, fn, "g_function disagrees with the Pauli multiplication table: " + "; ".join(bad[:4]) + (" ..." if len(bad) > 4 else ""),
                 func="g_function", construct="g_function: table")
    else:
        ctx.ok("prim.g-table", m, fn, what="16 Pauli products")


# ----------------------------------------------------------------------------------------------------------------- row_sum


def _linear(e: ast.AST, scale: int, out: Dict[str, int]) -> None:
    if isinstance(e, ast.BinOp) and isinstance(e.op, ast.Add):
        _linear(e.left, scale, out)
        _linear(e.right, scale, out)
    elif isinstance(e, ast.BinOp) and isinstance(e.op, ast.Sub):
        _linear(e.left, scale, out)
        _linear(e.right, -scale, out)
    elif isinstance(e, ast.BinOp) and isinstance(e.op, ast.Mult) and isinstance(e.left, ast.Constant) and isinstance(e.left.value, int):
        _linear(e.right, scale * e.left.value, out)
    elif isinstance(e, ast.BinOp) and isinstance(e.op, ast.Mult) and isinstance(e.right, ast.Constant) and isinstance(e.right.value, int):
        _linear(e.left, scale * e.right.value, out)
    elif isinstance(e, ast.Constant) and isinstance(e.value, int):
        out["1"] = out.get("1", 0) + scale * e.value
    else:
        k = norm(e)
        out[k] = out.get(k, 0) + scale


def rule_row_sum_form(ctx: Ctx) -> None:
    """prim.row-sum: row_sum multiplies generator `row_to_add` into `target_row`: g_function is summed over every qubit with the (x, z)
    bits of one row as its first pair and of the other row as its second; the phase is 2 r + i of both rows plus that sum, reduced
    mod 4; the new sign is its upper bit and the new i-phase its lower bit, both stored at target_row; both matrices get add_rows
    (row_to_add, target_row)."""
    repo = ctx.repo
    m = repo.module(LINALG)
    fn = m.find("row_sum")
    if fn is None:
        raise AnalysisError("prim.row-sum: row_sum missing")
    ctx.touch(m, fn)
    ps = func_params(fn)
    if len(ps) != 6:
        raise AnalysisError("prim.row-sum: row_sum does not take (x, z, r, i, row_to_add, target_row)")
    X, Z, R, I, A, T = ps
    fails: List[Tuple[ast.AST, str]] = []
    # (a) the accumulation
    gcalls = [c for c in calls_in(fn) if call_attr(c) == "g_function" or (isinstance(c.func, ast.Name) and c.func.id == "g_function")]
    acc = None
    if not gcalls:
        # vectorised form: <acc> = np.sum(<polynomial in the two rows' x and z vectors>) — evaluated for the sixteen bit patterns
        rows = {}
        for a_ in ast.walk(fn):
            if isinstance(a_, ast.Assign) and len(a_.targets) == 1:
                tg, vl = a_.targets[0], a_.value
                pairs = list(zip(tg.elts, vl.elts)) if isinstance(tg, ast.Tuple) and isinstance(vl, ast.Tuple) and len(tg.elts) == len(vl.elts) else [(tg, vl)]
                for t_, v_ in pairs:
                    if isinstance(t_, ast.Name) and isinstance(v_, ast.Subscript) and norm(v_.value) in (X, Z) and norm(v_.slice) in (A, T, f"{A}, :", f"{T}, :"):
                        rows[t_.id] = ("x" if norm(v_.value) == X else "z", "a" if norm(v_.slice).split(",")[0] == A else "t")
        sums = [a_ for a_ in ast.walk(fn) if isinstance(a_, ast.Assign) and isinstance(a_.targets[0], ast.Name) and isinstance(a_.value, ast.Call)
                and ((call_name(a_.value) in ("np.sum", "sum") and a_.value.args) or (call_attr(a_.value) == "sum" and not a_.value.args))
                and any(isinstance(x_, ast.Name) and x_.id in rows for x_ in ast.walk(a_.value))]
        if len(sums) != 1 or len(set(rows.values())) != 4:
            raise AnalysisError("prim.row-sum: the g_function call was not found")
        expr = sums[0].value.args[0] if sums[0].value.args else sums[0].value.func.value

        def pev(e, env):
            if isinstance(e, ast.Constant) and isinstance(e.value, int):
                return e.value
            if isinstance(e, ast.Name) and e.id in env:
                return env[e.id]
            if isinstance(e, ast.UnaryOp) and isinstance(e.op, ast.USub):
                return -pev(e.operand, env)
            if isinstance(e, ast.BinOp) and isinstance(e.op, (ast.Add, ast.Sub, ast.Mult)):
                l_, r_ = pev(e.left, env), pev(e.right, env)
                return l_ + r_ if isinstance(e.op, ast.Add) else l_ - r_ if isinstance(e.op, ast.Sub) else l_ * r_
            raise AnalysisError(f"prim.row-sum: vectorised phase term `{short(e)}` is not a polynomial in the rows' bits")
        wrong = {"at": [], "ta": []}
        for bits in itertools.product((0, 1), repeat=4):
            pa, pb = (bits[0], bits[1]), (bits[2], bits[3])       # Pauli of row_to_add, Pauli of target_row
            env = {nm: (pa if who == "a" else pb)[0 if kind == "x" else 1] for nm, (kind, who) in rows.items()}
            got = pev(expr, env)
            for order, (p1, p2) in (("at", (pa, pb)), ("ta", (pb, pa))):
                a_m, b_m = cl.PAULI1[_LETTER[p1]], cl.PAULI1[_LETTER[p2]]
                c_m = cl.PAULI1[_LETTER[(p1[0] ^ p2[0], p1[1] ^ p2[1])]]
                k = next(k for k in range(4) if cl.close(cl.mm(a_m, b_m), cl.scale(c_m, 1j ** k)))
                if (got - k) % 4 != 0:
                    wrong[order].append(f"{_LETTER[p1]}·{_LETTER[p2]}: term {got}, the product carries i^{k if k < 3 else -1}")
        if wrong["at"] and wrong["ta"]:
            best = min(wrong.values(), key=len)
            fails.append((sums[0], "the vectorised phase term disagrees with the Pauli multiplication table: " + "; ".join(best[:3])))
        acc = sums[0].targets[0].id
    if gcalls:
        if len(gcalls) != 1 or len(gcalls[0].args) != 4:
            raise AnalysisError("prim.row-sum: the g_function call was not found")
        gc = gcalls[0]
        loop = None
        for n in ast.walk(fn):
            if isinstance(n, ast.For) and any(x is gc for x in ast.walk(n)):
                loop = n
        if loop is None or not isinstance(loop.target, ast.Name):
            raise AnalysisError("prim.row-sum: the loop over qubits was not found")
        j = loop.target.id
        defs = {s.targets[0].id: s.value for s in fn.body if isinstance(s, ast.Assign) and isinstance(s.targets[0], ast.Name)}
        it = loop.iter
        full = False
        if isinstance(it, ast.Call) and call_name(it) == "range" and len(it.args) == 1:
            b = it.args[0]
            if isinstance(b, ast.Name) and b.id in defs:
                b = defs[b.id]
            full = norm(b) in (f"np.shape({X})[1]", f"{X}.shape[1]", f"np.shape({Z})[1]", f"{Z}.shape[1]", f"len({X}[0])", f"len({Z}[0])")
        if not full:
            fails.append((loop, f"the sum of g_function does not run over every qubit (`{short(it)}`)"))
        args = [norm(a) for a in gc.args]
        pair = lambda row: [f"{X}[{row}, {j}]", f"{Z}[{row}, {j}]"]
        if not (args in (pair(A) + pair(T), pair(T) + pair(A))):
            fails.append((gc, f"g_function receives `{', '.join(args)}`; it needs the (x, z) bits of one row followed by the (x, z) bits of the other, at the same qubit"))
        p = gc
        from ..core import parent as _parent
        while p is not None and not isinstance(p, (ast.Assign, ast.AugAssign)):
            p = _parent(p)
        if isinstance(p, ast.AugAssign) and isinstance(p.op, ast.Add) and isinstance(p.target, ast.Name) and p.value is gc:
            acc = p.target.id
        elif isinstance(p, ast.Assign) and isinstance(p.targets[0], ast.Name) and isinstance(p.value, ast.BinOp) and isinstance(p.value.op, ast.Add) \
                and {norm(p.value.left), norm(p.value.right)} == {p.targets[0].id, norm(gc)}:
            acc = p.targets[0].id
        if acc is None:
            fails.append((gc, "the values of g_function are not accumulated by addition"))
        elif not (acc in defs and isinstance(defs[acc], ast.Constant) and defs[acc].value == 0):
            fails.append((gc, f"the accumulator `{acc}` does not start at 0"))
    # (b) the linear form
    stores = [s for s in ast.walk(fn) if isinstance(s, ast.Assign) and isinstance(s.targets[0], ast.Subscript)
              and norm(s.targets[0].value) in (R, I) and norm(s.targets[0].slice) == T]
    r_store = [s for s in stores if norm(s.targets[0].value) == R]
    i_store = [s for s in stores if norm(s.targets[0].value) == I]
    other = [s for s in ast.walk(fn) if isinstance(s, ast.Assign) and isinstance(s.targets[0], ast.Subscript)
             and norm(s.targets[0].value) in (R, I) and norm(s.targets[0].slice) != T]
    for s in other:
        fails.append((s, f"`{short(s)}` writes a phase entry other than the target row's"))
    if len(r_store) != 1 or len(i_store) != 1:
        raise AnalysisError("prim.row-sum: the stores of the new sign and i-phase were not found")

    def split_src(v: ast.AST):
        """('hi'|'lo', name)"""
        if isinstance(v, ast.Call) and call_name(v) == "int" and len(v.args) == 1:
            v = v.args[0]
        if isinstance(v, ast.BinOp) and isinstance(v.right, ast.Constant) and v.right.value == 2 and isinstance(v.left, ast.Name):
            if isinstance(v.op, (ast.Div, ast.FloorDiv, ast.RShift)):
                return ("hi", v.left.id)
            if isinstance(v.op, ast.Mod):
                return ("lo", v.left.id)
        if isinstance(v, ast.BinOp) and isinstance(v.op, ast.RShift) and isinstance(v.right, ast.Constant) and v.right.value == 1 and isinstance(v.left, ast.Name):
            return ("hi", v.left.id)
        if isinstance(v, ast.BinOp) and isinstance(v.op, ast.BitAnd) and isinstance(v.right, ast.Constant) and v.right.value == 1 and isinstance(v.left, ast.Name):
            return ("lo", v.left.id)
        return (None, None)

    hi, hn = split_src(r_store[0].value)
    lo, ln = split_src(i_store[0].value)
    if hi != "hi":
        fails.append((r_store[0], f"the new sign `{short(r_store[0].value)}` is not the upper bit (phase // 2) of the combined phase"))
    if lo != "lo":
        fails.append((i_store[0], f"the new i-phase `{short(i_store[0].value)}` is not the lower bit (phase % 2) of the combined phase"))
    ph = hn or ln
    if ph is not None and hn and ln and hn != ln:
        fails.append((i_store[0], "sign and i-phase are split from different quantities"))
    if ph is not None:
        coef: Dict[str, int] = {}
        modded = False
        seq = sorted([s for s in ast.walk(fn) if isinstance(s, (ast.Assign, ast.AugAssign))
                      and norm(s.targets[0] if isinstance(s, ast.Assign) else s.target) == ph], key=lambda s: s.lineno)
        for s in seq:
            if s.lineno > min(r_store[0].lineno, i_store[0].lineno):
                fails.append((s, f"`{short(s)}` changes the combined phase after it was split"))
                continue
            if isinstance(s, ast.AugAssign):
                if isinstance(s.op, ast.Add) and not modded:
                    _linear(s.value, 1, coef)
                elif isinstance(s.op, ast.Mod) and isinstance(s.value, ast.Constant) and s.value.value == 4:
                    modded = True
                else:
                    fails.append((s, f"`{short(s)}` is not an addition to / reduction mod 4 of the combined phase"))
                continue
            v = s.value
            if isinstance(v, ast.BinOp) and isinstance(v.op, ast.Mod) and isinstance(v.right, ast.Constant):
                if v.right.value != 4:
                    fails.append((s, f"the combined phase is reduced mod {v.right.value}, it is an exponent of i (mod 4)"))
                modded = True
                v = v.left
            if isinstance(v, ast.Name) and v.id == ph:
                continue
            coef_new: Dict[str, int] = {}
            _linear(v, 1, coef_new)
            keep = coef_new.pop(ph, 0)
            if keep == 0:
                coef = {}
            elif keep != 1:
                fails.append((s, f"`{short(s)}` rescales the combined phase"))
            for k, c in coef_new.items():
                coef[k] = coef.get(k, 0) + c
        want = {f"{R}[{T}]": 2, f"{I}[{T}]": 1, f"{R}[{A}]": 2, f"{I}[{A}]": 1}
        if acc:
            want[acc] = 1
        coef = {k: c for k, c in coef.items() if c % 4 != 0}
        if not modded:
            fails.append((r_store[0], "the combined phase is not reduced mod 4 before it is split into sign and i-phase"))
        if {k: c % 4 for k, c in coef.items()} != want:
            miss = {k: v for k, v in want.items() if coef.get(k, 0) % 4 != v}
            extra = {k: v for k, v in coef.items() if k not in want}
            fails.append((seq[0] if seq else fn, "the combined phase is not 2 r + i of both rows plus the g sum: "
                          + "; ".join([f"coefficient of `{k}` is {coef.get(k, 0)}, should be {v}" for k, v in miss.items()]
                                      + [f"unexpected term {c} * `{k}`" for k, c in extra.items()])))
    # (d) the matrices
    for M in (X, Z):
        cs = [c for c in calls_in(fn) if call_attr(c) == "add_rows" or (isinstance(c.func, ast.Name) and c.func.id == "add_rows")]
        mine = [c for c in cs if c.args and norm(c.args[0]) == M]
        if len(mine) != 1:
            fails.append((fn, f"`{M}` is not updated by exactly one add_rows"))
        elif [norm(a) for a in mine[0].args[1:3]] != [A, T]:
            fails.append((mine[0], f"`{short(mine[0])}` does not add row `{A}` into row `{T}`"))
    if fails:
        for node, why in fails:
            ctx.fail("prim.row-sum", m, node, f"row_sum: {why}", func="row_sum", construct=f"row_sum: {why[:70]}")
    else:
        ctx.ok("prim.row-sum", m, fn, what="g over every qubit; phase = 2r+i (both rows) + g mod 4; split hi/lo at target; add_rows(row_to_add, target) on x and z")


def arm(ctx: Ctx) -> None:
    rule_helper_shape(ctx)
    rule_prim_formula(ctx)
    rule_g_table(ctx)
    rule_row_sum_form(ctx)
