"""Table / vocabulary / configuration rules (DESIGN §3 E4, E6, E8, E9)."""
from __future__ import annotations

import ast
import os
import sys
from typing import Dict, Iterable, List, Optional, Set, Tuple

from .. import clifford as cl
from .. import consteval
from ..chains import extract_chains
from ..core import (AnalysisError, Module, Repo, call_attr, call_name, calls_in, dotted, func_params, norm, parent,
                    qualname, short)
from ..report import Ctx

# --------------------------------------------------------------------------- E9 api.numpy

_NUMPY_NAMES: Optional[Set[str]] = None


def numpy_dir() -> str:
    import glob
    cands = []
    for base in (sys.prefix, "/venv"):
        cands += sorted(glob.glob(os.path.join(base, "lib", "python3*", "site-packages", "numpy")))
    for c in cands:
        if os.path.isfile(os.path.join(c, "__init__.pyi")):
            return c
    raise AnalysisError("installed numpy stub (__init__.pyi) not found under the repository's environment")


def numpy_names() -> Set[str]:
    """Public top-level names of the installed numpy, read from its stub and package directory (never imported)."""
    global _NUMPY_NAMES
    if _NUMPY_NAMES is not None:
        return _NUMPY_NAMES
    d = numpy_dir()
    with open(os.path.join(d, "__init__.pyi"), encoding="utf-8") as fh:
        tree = ast.parse(fh.read())
    names: Set[str] = set()
    for st in tree.body:
        if isinstance(st, ast.ImportFrom):
            for a in st.names:
                names.add(a.asname or a.name)
        elif isinstance(st, ast.Import):
            for a in st.names:
                names.add((a.asname or a.name).split(".")[0])
        elif isinstance(st, (ast.ClassDef, ast.FunctionDef, ast.AsyncFunctionDef)):
            names.add(st.name)
        elif isinstance(st, ast.Assign):
            for t in st.targets:
                if isinstance(t, ast.Name):
                    names.add(t.id)
                    if t.id == "__all__" and isinstance(st.value, (ast.List, ast.Tuple)):
                        names |= {e.value for e in st.value.elts if isinstance(e, ast.Constant)}
        elif isinstance(st, ast.AnnAssign) and isinstance(st.target, ast.Name):
            names.add(st.target.id)
        elif isinstance(st, (ast.If, ast.Try)):
            for n in ast.walk(st):
                if isinstance(n, ast.ImportFrom):
                    for a in n.names:
                        names.add(a.asname or a.name)
    for e in os.listdir(d):
        if os.path.isdir(os.path.join(d, e)) and not e.startswith("_") and e != "tests":
            names.add(e)
        elif e.endswith(".py") and not e.startswith("_"):
            names.add(e[:-3])
    _NUMPY_NAMES = names
    return names


def numpy_aliases(m: Module) -> Set[str]:
    out = set()
    for k, v in m.imports.items():
        if v == "numpy" or v == "graphiq.backends.density_matrix.numpy":
            out.add(k)
    return out


def rule_api_numpy(ctx: Ctx, rels: List[str], advisory_rels: Iterable[str] = ()) -> None:
    repo = ctx.repo
    names = numpy_names()
    n = 0
    for rel in list(rels) + list(advisory_rels):
        m = repo.module(rel)
        al = numpy_aliases(m)
        if not al:
            continue
        seen: Dict[str, ast.AST] = {}
        for node in ast.walk(m.tree):
            if isinstance(node, ast.Attribute) and isinstance(node.value, ast.Name) and node.value.id in al:
                n += 1
                if node.attr in names:
                    continue
                seen.setdefault(node.attr + "|" + _fn_of(node), node)
        used = {a.attr for a in ast.walk(m.tree) if isinstance(a, ast.Attribute) and isinstance(a.value, ast.Name) and a.value.id in al}
        for a in sorted(used & names):
            ctx.ok_abstract("api.numpy", f"{rel}: np.{a} exists in the installed numpy stub")
        for k, node in sorted(seen.items()):
            attr, fn = k.split("|")
            full = short(parent(node) if isinstance(parent(node), ast.Attribute) else node, 60)
            ctx.fail("api.numpy", m, node,
                     f"`{full}`: the installed numpy ({os.path.basename(numpy_dir())} stub) has no attribute `{attr}`; "
                     f"every call of {fn} raises AttributeError",
                     func=fn, construct=f"{fn}: np.{attr}", advisory=rel in set(advisory_rels))
    if n == 0:
        raise AnalysisError("api.numpy: no numpy attribute use found")


def _fn_of(node) -> str:
    p = parent(node)
    while p is not None:
        if isinstance(p, (ast.FunctionDef, ast.AsyncFunctionDef)):
            return qualname(p)
        p = parent(p)
    return "<module>"


# --------------------------------------------------------------------------- E8 config.domain


def rule_config_domain(ctx: Ctx, rel: str, solve_q: str, setting_cls: str, attr: str) -> None:
    """The default of <setting_cls>.<attr> lies in the set accepted by the dispatch chain on `<x>.<attr>` in solve()."""
    repo = ctx.repo
    m = repo.module(rel)
    fn = repo.anchor(rel, solve_q)
    ctx.touch(m, fn)
    accepted: Set[object] = set()
    ends_raise = False
    found = False
    for ch in extract_chains(repo, m, fn):
        def _sides(t):
            """(subject, constant) of `x.attr == c` / `c == x.attr` / `x.attr is c`"""
            if isinstance(t, ast.Compare) and len(t.ops) == 1 and isinstance(t.ops[0], (ast.Eq, ast.Is)):
                l, r = t.left, t.comparators[0]
                if isinstance(l, ast.Constant) and not isinstance(r, ast.Constant):
                    l, r = r, l
                if isinstance(r, ast.Constant):
                    return l, r
            return None, None
        hits = [b for b in ch if b.test is not None and ((b.parsed and (b.subject or "").endswith("." + attr))
                                                         or (_sides(b.test)[0] is not None and norm(_sides(b.test)[0]).endswith("." + attr)))]
        if len(hits) < 2:
            continue
        found = True
        for b in ch:
            if b.test is None:
                ends_raise = b.raises
                continue
            subj_, const_ = _sides(b.test)
            if const_ is not None:
                accepted.add(const_.value)
            elif b.parsed:
                accepted |= b.literals
    if not found:
        raise AnalysisError(f"{rel}::{solve_q}: dispatch chain on .{attr} not found")
    init = repo.anchor(rel, f"{setting_cls}.__init__")
    a = init.args
    params = a.posonlyargs + a.args
    defaults = [None] * (len(params) - len(a.defaults)) + list(a.defaults)
    dflt = None
    for p, d in zip(params, defaults):
        if p.arg == attr:
            dflt = d
    if dflt is None or not isinstance(dflt, ast.Constant):
        raise AnalysisError(f"{rel}::{setting_cls}.__init__: default of `{attr}` not a literal")
    # the parameter must reach self.<attr> unchanged
    stored = any(isinstance(n, ast.Assign) and norm(n.targets[0]) == f"self.{attr}" and norm(n.value) == attr for n in ast.walk(init))
    if not stored:
        raise AnalysisError(f"{setting_cls}.__init__ does not store `{attr}` as given")
    if not ends_raise or dflt.value in accepted:
        ctx.ok("config.domain", m, dflt, what=f"default {attr}={dflt.value!r} accepted")
    else:
        ctx.fail("config.domain", m, dflt,
                 f"{setting_cls}() defaults `{attr}` to {dflt.value!r}, which {solve_q} rejects "
                 f"(accepted: {sorted(map(repr, accepted))}; the chain ends in `raise`): the default setting cannot be solved",
                 func=f"{setting_cls}.__init__", construct=f"{setting_cls}: default {attr}={dflt.value!r}")


# --------------------------------------------------------------------------- E6 vocabularies


def emitted_tags(fn: ast.FunctionDef) -> Dict[str, ast.AST]:
    """String constants in first position of tuples appended / listed in ``fn`` (gate tags it can emit)."""
    out: Dict[str, ast.AST] = {}
    for n in ast.walk(fn):
        if isinstance(n, ast.Tuple) and n.elts and isinstance(n.elts[0], ast.Constant) and isinstance(n.elts[0].value, str) \
                and len(n.elts) >= 2 and isinstance(n.ctx, ast.Load):
            out.setdefault(n.elts[0].value, n)
    return out


def handled_tags_chain(repo: Repo, m: Module, fn: ast.FunctionDef) -> Set[str]:
    """Literals compared against `<x>[0]` in a dispatch chain of ``fn``."""
    out: Set[str] = set()
    for ch in extract_chains(repo, m, fn):
        for b in ch:
            if b.parsed and b.subject and b.subject.endswith("[0]"):
                out |= {l for l in b.literals if isinstance(l, str)}
    return out


def rule_vocab(ctx: Ctx, rule: str, producers: List[Tuple[str, str]], consumer_desc: str, handled: Set[str],
               extra_tokens: Optional[Dict[str, Tuple[Module, ast.AST]]] = None) -> None:
    repo = ctx.repo
    n = 0
    for rel, q in producers:
        m = repo.module(rel)
        fn = repo.anchor(rel, q)
        ctx.touch(m, fn)
        for tag, node in sorted(emitted_tags(fn).items()):
            n += 1
            if tag in handled:
                ctx.ok(rule, m, node, what=f"{q} emits '{tag}'")
            else:
                ctx.fail(rule, m, node, f"{q} emits gate tag '{tag}', which {consumer_desc} does not handle "
                                        f"(handled: {sorted(handled)})", func=q, construct=f"{q}: tag '{tag}' -> {consumer_desc}")
    for tag, (m, node) in sorted((extra_tokens or {}).items()):
        n += 1
        if tag in handled:
            ctx.ok(rule, m, node, what=f"token '{tag}'")
        else:
            ctx.fail(rule, m, node, f"token '{tag}' is not handled by {consumer_desc} (handled: {sorted(handled)})",
                     construct=f"token '{tag}' -> {consumer_desc}")
    if n == 0:
        raise AnalysisError(f"{rule}: no emitted tag found")


# --------------------------------------------------------------------------- E4 GL(2,2) table

LCE = "graphiq/backends/lc_equivalence_check.py"


def gl22_table(repo: Repo):
    m = repo.module(LCE)
    fn = repo.anchor(LCE, "local_clifford_ops")
    env: Dict[str, ast.AST] = {}
    for st in fn.body:
        if isinstance(st, ast.Assign) and len(st.targets) == 1 and isinstance(st.targets[0], ast.Name):
            env.setdefault(st.targets[0].id, st.value)
    # the matrix list and the name list, whatever the locals are called: a list of local matrix names / a list of string literals
    mlists = [k for k, v in env.items() if isinstance(v, ast.List) and v.elts and all(isinstance(e, ast.Name) and e.id in env for e in v.elts)]
    slists = [k for k, v in env.items() if isinstance(v, ast.List) and v.elts and all(isinstance(e, ast.Constant) and isinstance(e.value, str) for e in v.elts)]
    if len(mlists) != 1 or len(slists) != 1:
        raise AnalysisError("local_clifford_ops: matrix list / name list not found")
    env = dict(env)
    env["ops_list"], env["ops_list_str"] = env[mlists[0]], env[slists[0]]
    mats = []
    for e in env["ops_list"].elts:
        if not (isinstance(e, ast.Name) and e.id in env):
            raise AnalysisError(f"local_clifford_ops: ops_list entry {norm(e)} not a local matrix name")
        try:
            v = consteval.fold(env[e.id], names=env)
        except consteval.NotConstant as ex:
            raise AnalysisError(f"local_clifford_ops: {e.id} is not a closed literal ({ex})")
        mats.append((e.id, [[int(x) % 2 for x in row] for row in v]))
    strs = [consteval.fold(e) for e in env["ops_list_str"].elts]
    return m, fn, mats, strs, env


def rule_gl22(ctx: Ctx) -> None:
    repo = ctx.repo
    m, fn, mats, strs, env = gl22_table(repo)
    ctx.touch(m, fn)
    node = env["ops_list"]
    if len(mats) != len(strs):
        ctx.fail("table.gl22", m, node, f"ops_list has {len(mats)} matrices but ops_list_str has {len(strs)} names",
                 func="local_clifford_ops", construct="local_clifford_ops: table lengths differ")
        return
    keys = [tuple(map(tuple, v)) for _, v in mats]
    inv = [cl.gf2_invertible(v) for _, v in mats]
    if len(set(keys)) == 6 and len(keys) == 6 and all(inv):
        ctx.ok("table.gl22", m, node, what="six pairwise distinct invertible binary 2x2 matrices (all of GL(2,2))")
    else:
        dup = sorted({mats[i][0] for i in range(len(keys)) for j in range(i) if keys[i] == keys[j]})
        ctx.fail("table.gl22", m, node,
                 f"ops_list is not the six distinct invertible binary 2x2 matrices (duplicates: {dup}, "
                 f"non-invertible: {[n for (n, _), ok in zip(mats, inv) if not ok]}); a solution block matching none of them "
                 f"appends no name for that qubit and shifts the whole gate list",
                 func="local_clifford_ops", construct="local_clifford_ops: ops_list not GL(2,2)")
    # generators = the single-token rows of the table itself; P_dag acts like P on (x, z)
    gen: Dict[str, List[List[int]]] = {}
    for (name, v), s in zip(mats, strs):
        toks = s.split()
        if len(toks) == 1:
            gen[toks[0]] = v
    if "P" in gen:
        gen.setdefault("P_dag", gen["P"])
    for (name, v), s in zip(mats, strs):
        toks = s.split()
        unknown = [t for t in toks if t not in gen]
        if unknown:
            ctx.fail("table.gl22", m, env["ops_list_str"], f"name '{s}' uses token(s) {unknown} that no single-token row defines",
                     func="local_clifford_ops", construct=f"local_clifford_ops: '{s}' unknown tokens")
            continue
        p = [[1, 0], [0, 1]]
        for t in toks:
            p = cl.gf2_mm(p, gen[t])
        if p == v:
            ctx.ok_abstract("table.gl22", f"'{s}' == {name} as a product of the table's own generators")
        else:
            ctx.fail("table.gl22", m, env["ops_list_str"],
                     f"name '{s}' multiplies (left to right, over GF(2)) to {p} but is paired with `{name}` = {v}",
                     func="local_clifford_ops", construct=f"local_clifford_ops: '{s}' != {name}")
    return


def gl22_tokens(repo: Repo) -> Dict[str, Tuple[Module, ast.AST]]:
    m, fn, mats, strs, env = gl22_table(repo)
    out = {}
    for s in strs:
        for t in s.split():
            out[t] = (m, env["ops_list_str"])
    return out


# --------------------------------------------------------------------------- api.project: attributes of the project's own modules


def _module_aliases(repo: Repo, m: Module) -> Dict[str, str]:
    """alias -> rel path of the graphiq module it is bound to by a module-level import"""
    import os
    out: Dict[str, str] = {}

    def rel_of(dotted_name: str) -> Optional[str]:
        base = dotted_name.replace(".", "/")
        for cand in (base + ".py", base + "/__init__.py"):
            if os.path.exists(os.path.join(repo.root, cand)):
                return cand
        return None

    for st in m.tree.body:
        if isinstance(st, ast.Import):
            for a in st.names:
                if a.name.startswith("graphiq") and a.asname:
                    r = rel_of(a.name)
                    if r:
                        out[a.asname] = r
        elif isinstance(st, ast.ImportFrom) and st.module and st.module.startswith("graphiq") and st.level == 0:
            for a in st.names:
                r = rel_of(st.module + "." + a.name)
                if r:
                    out[a.asname or a.name] = r
    return out


def _top_names(tm: Module) -> Set[str]:
    out: Set[str] = set()
    for x in ast.walk(tm.tree):
        # anything bound at module level, also under if/try; nested function bodies only add harmless extra names
        if isinstance(x, (ast.FunctionDef, ast.ClassDef, ast.AsyncFunctionDef)):
            out.add(x.name)
        elif isinstance(x, ast.Assign):
            for t in x.targets:
                for y in ast.walk(t):
                    if isinstance(y, ast.Name):
                        out.add(y.id)
        elif isinstance(x, (ast.AnnAssign, ast.AugAssign)) and isinstance(x.target, ast.Name):
            out.add(x.target.id)
        elif isinstance(x, ast.Import):
            for a in x.names:
                out.add((a.asname or a.name).split(".")[0])
        elif isinstance(x, ast.ImportFrom):
            for a in x.names:
                out.add(a.asname or a.name)
    return out


def rule_api_project(ctx: Ctx, rels: List[str]) -> None:
    """api.project: `alias.name` where `alias` is bound by a module-level import to one of graphiq's own modules names something
    that module defines; otherwise the call raises AttributeError the first time it is reached (no test reaches it)."""
    import os
    repo = ctx.repo
    n = 0
    for rel in rels:
        m = repo.module(rel)
        al = _module_aliases(repo, m)
        if not al:
            continue
        for fn in [f for f in ast.walk(m.tree) if isinstance(f, (ast.FunctionDef, ast.AsyncFunctionDef))]:
            local = {a.arg for a in fn.args.posonlyargs + fn.args.args + fn.args.kwonlyargs}
            local |= {x.id for x in ast.walk(fn) if isinstance(x, ast.Name) and isinstance(x.ctx, ast.Store)}
            for node in ast.walk(fn):
                if isinstance(node, ast.Attribute) and isinstance(node.value, ast.Name) and node.value.id in al and node.value.id not in local:
                    tm = repo.module(al[node.value.id])
                    n += 1
                    names = _top_names(tm)
                    pkg_dir = os.path.dirname(os.path.join(repo.root, tm.rel))
                    sub_ok = tm.rel.endswith("__init__.py") and (os.path.exists(os.path.join(pkg_dir, node.attr + ".py")) or os.path.isdir(os.path.join(pkg_dir, node.attr)))
                    if node.attr in names or sub_ok or node.attr.startswith("__"):
                        continue
                    ctx.touch(m, fn)
                    ctx.fail("api.project", m, node,
                             f"{qualname(fn)} uses `{node.value.id}.{node.attr}`, but {tm.rel} defines no `{node.attr}`: the call raises AttributeError "
                             f"whenever this line is reached", func=qualname(fn), construct=f"{qualname(fn)}: {tm.rel.rsplit('/', 1)[-1]} has no {node.attr}")
    if n == 0:
        raise AnalysisError("api.project: no use of a project module alias found")
    ctx.ok_abstract("api.project", f"{n} attribute uses of graphiq module aliases resolved")
