"""Rules over the tableau classes and the tableau function modules (DESIGN §3 C3, C4, G5, G6)."""
from __future__ import annotations

import ast
from typing import Dict, List, Optional, Set, Tuple

from .. import linear
from ..core import (AnalysisError, Module, Repo, call_attr, call_name, calls_in, dotted, enclosing_class, enclosing_def, parent,
                    func_params, get_kw, norm, qualname, short)
from ..report import Ctx

CLIFF = "graphiq/backends/stabilizer/functions/clifford.py"
STABF = "graphiq/backends/stabilizer/functions/stabilizer.py"
METRIC = "graphiq/backends/stabilizer/functions/metric.py"
LINALG = "graphiq/backends/stabilizer/functions/linalg.py"
TABLEAU = "graphiq/backends/stabilizer/tableau.py"
CTABLEAU = "graphiq/backends/stabilizer/clifford_tableau.py"

FIELDS = {"n_qubits", "shape", "_table", "_phase", "_iphase"}
FAMILY = {"TableauBase", "StabilizerTableau", "CliffordTableau"}


def _stores(fn_or_mod) -> List[ast.Attribute]:
    out = []
    for n in ast.walk(fn_or_mod):
        if isinstance(n, ast.Attribute) and isinstance(n.ctx, ast.Store):
            out.append(n)
    return out


def rule_own_tableau(ctx: Ctx) -> None:
    """own.tableau: the size/storage fields of a tableau are written only by the tableau classes themselves."""
    repo = ctx.repo
    fam = set()
    for n in FAMILY:
        for ci in repo.classes.get(n, []):
            fam.add(ci.key)
            for s in repo.subclasses(ci):
                fam.add(s.key)
    n_inside = 0
    for m in repo.modules.values():
        for a in _stores(m.tree):
            if a.attr not in FIELDS:
                continue
            cls = enclosing_class(a)
            recv_self = isinstance(a.value, ast.Name) and a.value.id == "self"
            if recv_self and cls is not None:
                key = f"{m.name}.{cls.name}"
                if key in fam:
                    n_inside += 1
                    ctx.ok("own.tableau", m, a)
                # a different class writing its own same-named field is not a tableau write
                continue
            if recv_self:
                continue
            # a non-self receiver: some other object's storage field is written from outside its class
            if a.attr == "shape" and not _receiver_is_tableau_like(a):
                continue  # numpy arrays have a writable .shape; only tableau-like receivers are armed
            ctx.fail("own.tableau", m, getattr(a, "_parent", a),
                     f"`{norm(a)}` is written outside the tableau classes; the table, phase vectors and `shape` keep the old "
                     f"size, so every block setter / consumer sees an inconsistent tableau",
                     chain=["only TableauBase / StabilizerTableau / CliffordTableau methods (constructors, _reset) may "
                            "write n_qubits, shape, _table, _phase, _iphase"])
    # pairing inside the family: a method that changes n_qubits also replaces table, phases and shape
    for cname in ("CliffordTableau", "StabilizerTableau"):
        for ci in repo.classes.get(cname, []):
            ms = ci.methods()
            need = {"_table", "_phase", "shape"} | ({"_iphase"} if cname == "CliffordTableau" else set())
            for name, fn in ms.items():
                w = _self_writes(ci, fn, 1)
                if "n_qubits" in w:
                    missing = need - w
                    if missing:
                        ctx.fail("own.tableau", ci.module, fn,
                                 f"{cname}.{name} changes n_qubits without replacing {sorted(missing)} in the same call",
                                 construct=f"{cname}.{name}: writes n_qubits, not {sorted(missing)}", func=f"{cname}.{name}")
                    else:
                        ctx.ok("own.tableau", ci.module, fn, what=f"{cname}.{name} replaces all size-dependent fields together")
    if n_inside == 0:
        raise AnalysisError("own.tableau: no field store found inside the tableau classes (anchor moved)")


def _receiver_is_tableau_like(a: ast.Attribute) -> bool:
    t = norm(a.value).lower()
    return "tab" in t


def _self_writes(ci, fn: ast.FunctionDef, depth: int) -> Set[str]:
    w = set()
    for a in _stores(fn):
        if isinstance(a.value, ast.Name) and a.value.id == "self":
            w.add(a.attr)
    if depth > 0:
        for c in calls_in(fn):
            d = call_name(c) or ""
            if d.startswith("self.") and d.count(".") == 1:
                callee = ci.methods().get(d.split(".")[1])
                if callee is not None and callee is not fn:
                    w |= _self_writes(ci, callee, depth - 1)
    return w


# --------------------------------------------------------------------------- G6 row / column kinds

COL_FUNCS = {"column_swap": (1, 2), "add_columns": (1, 2), "multiply_columns": (2, 3)}
ROW_FUNCS = {"row_swap": (1, 2), "add_rows": (1, 2), "row_sum": (4, 5), "tab_row_sum": (1, 2), "tab_row_swap": (1, 2)}
PHASE_ATTRS = {"phase", "iphase", "_phase", "_iphase"}


def _names(e: ast.AST) -> Set[str]:
    return {n.id for n in ast.walk(e) if isinstance(n, ast.Name)}


def rule_rowcol(ctx: Ctx, rels: List[str]) -> None:
    """num.rowcol: a name that is only ever used as a *column* (qubit) position must not index a phase vector,
    which is indexed by generator (row)."""
    repo = ctx.repo
    n_sites = 0
    for rel in rels:
        m = repo.module(rel)
        for fn in [f for f in m.tree.body if isinstance(f, ast.FunctionDef)]:
            ctx.touch(m, fn)
            col: Set[str] = set()
            row: Set[str] = set()
            phase_alias: Set[str] = set()
            for n in ast.walk(fn):
                if isinstance(n, ast.Assign) and isinstance(n.value, ast.Attribute) and n.value.attr in PHASE_ATTRS:
                    phase_alias |= {t.id for t in n.targets if isinstance(t, ast.Name)}
                # `for vector in (tableau.phase, tableau.iphase):` — the loop variable is each phase vector in turn
                if isinstance(n, ast.For) and isinstance(n.target, ast.Name) and isinstance(n.iter, (ast.Tuple, ast.List)) and n.iter.elts \
                        and all(isinstance(e, ast.Attribute) and e.attr in PHASE_ATTRS for e in n.iter.elts):
                    phase_alias.add(n.target.id)
            for c in calls_in(fn):
                a = call_attr(c)
                if a in COL_FUNCS:
                    for i in COL_FUNCS[a]:
                        if i < len(c.args):
                            col |= _names(c.args[i])
                if a in ROW_FUNCS:
                    for i in ROW_FUNCS[a]:
                        if i < len(c.args):
                            row |= _names(c.args[i])
                if a in ("insert", "delete") and (call_name(c) or "").startswith("np."):
                    ax = get_kw(c, "axis")
                    if ax is not None and isinstance(ax, ast.Constant) and len(c.args) > 1:
                        (col if ax.value == 1 else row).update(_names(c.args[1]))
            for n in ast.walk(fn):
                if isinstance(n, ast.Subscript):
                    base = n.value
                    is_phase = (isinstance(base, ast.Attribute) and base.attr in PHASE_ATTRS) or \
                               (isinstance(base, ast.Name) and base.id in phase_alias)
                    if is_phase:
                        continue
                    sl = n.slice
                    if isinstance(sl, ast.Tuple) and len(sl.elts) == 2:
                        row |= _names(sl.elts[0])
                        col |= _names(sl.elts[1])
                    elif isinstance(base, ast.Attribute) and base.attr in ("table", "_table", "x_matrix", "z_matrix",
                                                                            "table_x", "table_z") or \
                            (isinstance(base, ast.Name) and base.id in ("table", "new_table")):
                        row |= _names(sl)
                # names produced by np.nonzero(<column slice>) are row indices
                if isinstance(n, ast.Assign) and isinstance(n.value, (ast.Subscript, ast.Call)):
                    v = n.value.value if isinstance(n.value, ast.Subscript) else n.value
                    if isinstance(v, ast.Call) and call_attr(v) == "nonzero":
                        row |= {t.id for t in n.targets if isinstance(t, ast.Name)}
            size_names = {p for p in _names(fn) if p in ("n_qubits", "n", "n_qubit")}
            col_only = col - row - size_names
            # locals computed from column-only names alone (index lists such as [q, q + n]) are column-kind as well
            changed = True
            while changed:
                changed = False
                for n in ast.walk(fn):
                    if isinstance(n, ast.Assign) and len(n.targets) == 1 and isinstance(n.targets[0], ast.Name) and n.targets[0].id not in col_only \
                            and n.targets[0].id not in row and not isinstance(n.value, ast.Call):
                        used_ = _names(n.value)
                        if used_ & col_only and used_ <= (col_only | size_names):
                            col_only = col_only | {n.targets[0].id}
                            changed = True
            bad: Dict[str, List[ast.AST]] = {}
            for n in ast.walk(fn):
                if isinstance(n, ast.Subscript):
                    base = n.value
                    is_phase = (isinstance(base, ast.Attribute) and base.attr in PHASE_ATTRS) or \
                               (isinstance(base, ast.Name) and base.id in phase_alias)
                    if not is_phase:
                        continue
                    n_sites += 1
                    used = _names(n.slice) & col_only
                    if used:
                        bad.setdefault(",".join(sorted(used)), []).append(n)
                    else:
                        ctx.ok("num.rowcol", m, n)
            for used, nodes in bad.items():
                ctx.fail("num.rowcol", m, nodes[0],
                         f"{len(nodes)} phase-vector subscripts (first: `{short(nodes[0])}`) are selected by {used}, which this "
                         f"function uses only as column (qubit) positions; phase entries belong to generators (rows), so a "
                         f"column operation must not permute or overwrite them",
                         chain=["column-kind uses: arguments of column_swap/add_columns/multiply_columns or second-axis subscripts",
                                f"row-kind names in this function: {sorted(row - size_names)}"],
                         func=fn.name, construct=f"{fn.name}: phase/iphase indexed by column-only name(s) {used}")
    if n_sites == 0:
        raise AnalysisError("num.rowcol: no phase-vector subscript found")


# --------------------------------------------------------------------------- G5 bounds / alignment of insert & delete

PHASE_LEN = {CLIFF: 2, STABF: 1}  # length of a tableau's phase vector in units of n_qubits, per module (docstrings)


def _asserted_bounds(fn: ast.FunctionDef) -> Dict[str, Tuple[linear.Lin, int]]:
    """name -> (upper bound linear form, slack) from `assert v <= w` / `assert v < w` (also inside `and`)."""
    out: Dict[str, Tuple[linear.Lin, int]] = {}

    def one(t: ast.AST):
        if isinstance(t, ast.BoolOp) and isinstance(t.op, ast.And):
            for v in t.values:
                one(v)
        elif isinstance(t, ast.Compare) and len(t.ops) == 1 and isinstance(t.left, ast.Name):
            r = linear.lin(t.comparators[0])
            if r is None:
                return
            if isinstance(t.ops[0], ast.LtE):
                out[t.left.id] = (r, 0)
            elif isinstance(t.ops[0], ast.Lt):
                out[t.left.id] = (r, -1)

    for st in fn.body:
        if isinstance(st, ast.Assert):
            one(st.test)
    return out


def _upper(expr: linear.Lin, bounds, nq_sym: str) -> Optional[linear.Lin]:
    """Worst-case upper bound of ``expr`` after substituting asserted upper bounds for positively weighted names.
    Returns a linear form in nq_sym (and constant) or None if some symbol stays unbounded."""
    out: linear.Lin = {}
    for k, v in expr.items():
        if k in ("", nq_sym):
            out[k] = out.get(k, 0) + v
        elif k in bounds and v > 0:
            b, slack = bounds[k]
            for bk, bv in b.items():
                out[bk] = out.get(bk, 0) + v * bv
            out[""] = out.get("", 0) + v * slack
        elif v < 0:
            continue  # names are indices >= 0: dropping a negative term keeps an upper bound
        else:
            return None
    if any(k not in ("", nq_sym) for k in out):
        return None
    return out


def rule_bounds(ctx: Ctx, rels: List[str]) -> None:
    """num.bounds / num.align for np.insert / np.delete on a tableau's phase vectors."""
    repo = ctx.repo
    seen = 0
    for rel in rels:
        m = repo.module(rel)
        unit = PHASE_LEN[rel]
        for fn in [f for f in m.tree.body if isinstance(f, ast.FunctionDef)]:
            env: Dict[str, ast.AST] = {}
            nq_sym = None
            for st in fn.body:
                if isinstance(st, ast.Assign) and len(st.targets) == 1 and isinstance(st.targets[0], ast.Name) \
                        and isinstance(st.value, ast.Attribute) and st.value.attr == "n_qubits":
                    nq_sym = st.targets[0].id
            if nq_sym is None:
                continue
            bounds = _asserted_bounds(fn)
            for c in calls_in(fn):
                a = call_attr(c)
                if a not in ("insert", "delete") or not (call_name(c) or "").startswith("np.") or len(c.args) < 2:
                    continue
                arr = c.args[0]
                if not (isinstance(arr, ast.Attribute) and arr.attr in ("phase", "iphase")):
                    continue
                seen += 1
                ctx.touch(m, fn)
                idx = c.args[1]
                elts = idx.elts if isinstance(idx, (ast.List, ast.Tuple)) else [idx]
                lins = [linear.lin(e) for e in elts]
                length: linear.Lin = {nq_sym: unit}
                limit = length if a == "insert" else linear.sub(length, {"": 1})
                ok = True
                for e, l in zip(elts, lins):
                    if l is None:
                        continue
                    ub = _upper(l, bounds, nq_sym)
                    if ub is None:
                        continue  # unbounded symbol: not decided here
                    d = linear.sub(ub, limit)
                    if d.get(nq_sym, 0) > 0 or (d.get(nq_sym, 0) == 0 and d.get("", 0) > 0):
                        ok = False
                        ctx.fail("num.bounds", m, c,
                                 f"np.{a} on `{norm(arr)}` (length {linear.show(length)}) uses index `{norm(e)}` whose worst case "
                                 f"under the function's own asserts is {linear.show(ub)} > {linear.show(limit)}",
                                 chain=[f"asserted: " + ", ".join(f"{k} <= {linear.show(b)}{'' if s == 0 else ' - 1'}" for k, (b, s) in bounds.items())],
                                 func=fn.name, construct=f"np.{a}({norm(arr)}, {norm(idx)})")
                # alignment of the destabilizer / stabilizer halves (Clifford tableaux: phase = [destab | stab])
                if unit == 2 and len(elts) == 2 and all(l is not None for l in lins):
                    d = linear.clean(linear.sub(lins[1], lins[0]))
                    if d in ({nq_sym: 1}, {nq_sym: -1}):
                        if ok:
                            ctx.ok("num.bounds", m, c, what="half-offset index pair")
                    else:
                        ctx.fail("num.bounds", m, c,
                                 f"np.{a} on `{norm(arr)}` addresses the destabilizer and stabilizer halves with indices "
                                 f"`{norm(elts[0])}` and `{norm(elts[1])}`; they must differ by exactly the (pre-call) qubit count "
                                 f"`{nq_sym}` — numpy interprets both against the original vector",
                                 func=fn.name, construct=f"np.{a}({norm(arr)}, {norm(idx)}): offset {linear.show(d)}")
                elif ok:
                    ctx.ok("num.bounds", m, c)
            # delete: table rows and phase entries use the same index lists within one function
            tab_rows: Set[str] = set()
            ph_rows: Dict[str, Set[str]] = {"phase": set(), "iphase": set()}
            for c in calls_in(fn):
                if call_attr(c) == "delete" and len(c.args) >= 2:
                    ax = get_kw(c, "axis")
                    if isinstance(c.args[0], ast.Attribute) and c.args[0].attr in ph_rows:
                        ph_rows[c.args[0].attr].add(norm(c.args[1]))
                    elif ax is not None and isinstance(ax, ast.Constant) and ax.value == 0:
                        tab_rows.add(norm(c.args[1]))
            if tab_rows or ph_rows["phase"]:
                for k, s in ph_rows.items():
                    if s != tab_rows:
                        ctx.fail("num.bounds", m, fn,
                                 f"{fn.name}: rows deleted from the table {sorted(tab_rows)} and entries deleted from `{k}` "
                                 f"{sorted(s)} differ", func=fn.name, construct=f"{fn.name}: delete rows vs {k}")
                    else:
                        ctx.ok_abstract("num.bounds", f"{rel}::{fn.name}: table rows and {k} entries deleted with the same index lists")
    if seen == 0:
        raise AnalysisError("num.bounds: no np.insert/np.delete on a phase vector found")


# --------------------------------------------------------------------------- C4 row operations carry the signs

SIGN_MODULES = [STABF, CLIFF, METRIC, "graphiq/backends/stabilizer/functions/height.py",
                "graphiq/backends/stabilizer/functions/rep_conversion.py", "graphiq/solvers/time_reversed_solver.py",
                "graphiq/backends/stabilizer/state.py", "graphiq/backends/stabilizer/functions/local_cliff_equi_check.py"]
TAB_MATS = {"x_matrix", "z_matrix", "table", "table_x", "table_z", "stabilizer", "destabilizer", "stabilizer_x",
            "stabilizer_z", "destabilizer_x", "destabilizer_z", "_table"}
OBLIVIOUS = {"row_swap", "add_rows", "row_reduction", "_row_red_one_step", "hadamard_transform"}


def rule_rowops(ctx: Ctx) -> None:
    repo = ctx.repo
    total = 0
    for rel in SIGN_MODULES:
        m = repo.module(rel)
        for fn in m.functions():
            groups: Dict[str, List[ast.Call]] = {}
            # local names that hold a tableau's matrix (assigned from <t>.x_matrix / .z_matrix / .table ..., or from an oblivious
            # operation on such a name) and are written back into the tableau later
            held: Dict[str, str] = {}
            changed_ = True
            while changed_:
                changed_ = False
                for a_ in ast.walk(fn):
                    if isinstance(a_, ast.Assign) and len(a_.targets) == 1 and isinstance(a_.targets[0], ast.Name) and a_.targets[0].id not in held:
                        v_ = a_.value
                        if isinstance(v_, ast.Attribute) and v_.attr in TAB_MATS and isinstance(v_.value, ast.Name):
                            held[a_.targets[0].id] = v_.value.id
                            changed_ = True
                        elif isinstance(v_, ast.Call) and call_attr(v_) in OBLIVIOUS and v_.args and isinstance(v_.args[0], ast.Name) and v_.args[0].id in held:
                            held[a_.targets[0].id] = held[v_.args[0].id]
                            changed_ = True
            written_back = {n_ for n_ in held for a_ in ast.walk(fn) if isinstance(a_, ast.Assign) and any(
                isinstance(t_, ast.Attribute) and t_.attr in TAB_MATS for t_ in a_.targets) and any(isinstance(x_, ast.Name) and x_.id == n_ for x_ in ast.walk(a_.value))}
            returned = {n_ for n_ in held for r_ in ast.walk(fn) if isinstance(r_, ast.Return) and r_.value is not None
                        and any(isinstance(x_, ast.Name) and x_.id == n_ for x_ in ast.walk(r_.value))}
            for c in calls_in(fn, nested=False):
                a = call_attr(c)
                if a in OBLIVIOUS and c.args and isinstance(c.args[0], ast.Attribute) and c.args[0].attr in TAB_MATS | {"phase"}:
                    groups.setdefault(norm(c.args[0].value), []).append(c)
                elif a in OBLIVIOUS and a != "row_swap" and c.args and isinstance(c.args[0], ast.Name) and c.args[0].id in held \
                        and (c.args[0].id in written_back or c.args[0].id in returned or
                             any(isinstance(p_, ast.Assign) and norm(p_.targets[0]) in written_back | returned for p_ in [parent(c)])):
                    total += 1
                    ctx.touch(m, fn)
                    ctx.fail("own.rowops", m, c,
                             f"sign-oblivious `{a}` is applied to `{c.args[0].id}`, a local holding `{held[c.args[0].id]}`'s matrix that is written back / "
                             f"returned: generators of a tableau may only be combined through row_sum / tab_row_sum, which update the sign vector "
                             f"(a product of Z-type generators still multiplies their signs)", func=qualname(fn))
            for recv, cs in groups.items():
                total += 1
                ctx.touch(m, fn)
                mats = [c for c in cs if c.args[0].attr in TAB_MATS]
                phs = [c for c in cs if c.args[0].attr == "phase"]
                for c in mats:
                    a = call_attr(c)
                    if a != "row_swap":
                        ctx.fail("own.rowops", m, c,
                                 f"sign-oblivious `{a}` is applied to `{norm(c.args[0])}`; generators of a tableau may only be "
                                 f"combined through row_sum / tab_row_sum, which update the sign vector",
                                 func=qualname(fn))
                        continue
                    rest = [norm(x) for x in c.args[1:]]
                    if any([norm(x) for x in p.args[1:]] == rest for p in phs):
                        ctx.ok("own.rowops", m, c)
                    else:
                        ctx.fail("own.rowops", m, c,
                                 f"rows {rest} of `{norm(c.args[0])}` are swapped but the same swap is not applied to "
                                 f"`{recv}.phase` in this function: the signs stay with the wrong generators",
                                 func=qualname(fn))
            # row_sum: phase in, phase out
            for c in calls_in(fn, nested=False):
                if call_attr(c) == "row_sum" and len(c.args) >= 4:
                    total += 1
                    a2 = c.args[2]
                    if _phase_derived(fn, a2):
                        ctx.ok("own.rowops", m, c, what="row_sum receives the sign vector")
                    else:
                        ctx.fail("own.rowops", m, c,
                                 f"row_sum is called with `{norm(a2)}` as the sign vector, which does not derive from the tableau's phase",
                                 func=qualname(fn), construct=f"row_sum(..., {norm(a2)}, ...)")
                    copied = False
                    if isinstance(a2, ast.Call) and ((call_attr(a2) == "copy" and isinstance(a2.func, ast.Attribute) and not a2.args) or
                                                     (call_attr(a2) in ("copy", "array") and len(a2.args) == 1)):
                        inner = a2.func.value if not a2.args else a2.args[0]
                        if isinstance(inner, ast.Attribute) and inner.attr == "phase":
                            a2, copied = inner, True      # row_sum works on a copy of the sign vector: only the returned vector carries the update
                    if isinstance(a2, ast.Attribute) and a2.attr == "phase":
                        recv = norm(a2.value)
                        par = getattr(c, "_parent", None)
                        stored = False
                        if isinstance(par, ast.Assign) and isinstance(par.targets[0], ast.Tuple) and len(par.targets[0].elts) >= 3:
                            t = par.targets[0].elts[2]
                            if norm(t) == f"{recv}.phase":
                                stored = True
                            elif isinstance(t, ast.Name):
                                for st in ast.walk(fn):
                                    if isinstance(st, ast.Assign) and norm(st.targets[0]) == f"{recv}.phase" \
                                            and isinstance(st.value, ast.Name) and st.value.id == t.id:
                                        stored = True
                        if not stored and not copied and _rowsum_in_place(repo):
                            # row_sum writes r_vector[target_row] on the array it is handed and `.phase` hands out the tableau's own array:
                            # the sign is updated whether or not the returned tuple is assigned
                            stored = True
                        if stored:
                            ctx.ok("own.rowops", m, c, what="row_sum result stored back into phase")
                        else:
                            ctx.fail("own.rowops", m, c,
                                     f"the sign vector returned by row_sum is not stored back into `{recv}.phase`",
                                     func=qualname(fn), construct=f"row_sum on {recv}: phase result dropped")
            total += _pivot_roles(ctx, m, fn)
    if total == 0:
        raise AnalysisError("own.rowops: no row operation found")


def _local_binding(fn: ast.FunctionDef, name: str) -> Optional[ast.AST]:
    for st in ast.walk(fn):
        if isinstance(st, ast.Assign) and len(st.targets) == 1 and isinstance(st.targets[0], ast.Name) \
                and st.targets[0].id == name:
            return st.value
    return None


def _rowsum_in_place(repo: Repo) -> bool:
    """row_sum updates the sign vector in place (a subscript store on its r_vector parameter, never rebound before) and every `phase`
    property getter of the tableau classes returns the stored array itself — then a caller need not assign row_sum's result."""
    lin = "graphiq/backends/stabilizer/functions/linalg.py"
    fn = repo.anchor(lin, "row_sum")
    if len(fn.args.args) < 3:
        return False
    r = fn.args.args[2].arg
    rebound = any(isinstance(a, ast.Assign) and any(isinstance(t, ast.Name) and t.id == r for t in a.targets) for a in ast.walk(fn))
    store = any(isinstance(a, ast.Assign) and any(isinstance(t, ast.Subscript) and isinstance(t.value, ast.Name) and t.value.id == r for t in a.targets) for a in ast.walk(fn))
    if rebound or not store:
        return False
    tab = repo.module("graphiq/backends/stabilizer/tableau.py")
    getters = [f for f in tab.functions() if f.name == "phase" and any(norm(d) == "property" for d in f.decorator_list)]
    if not getters:
        return False
    for g in getters:
        rets = [x for x in ast.walk(g) if isinstance(x, ast.Return) and x.value is not None]
        if not rets or not all(isinstance(x.value, ast.Attribute) and norm(x.value) == "self._phase" for x in rets):
            return False
    return True


def _pivot_roles(ctx: Ctx, m: Module, fn: ast.FunctionDef) -> int:
    """own.rowops (roles): an elimination loop `for r in S: row_sum(.., P, r)` multiplies the pivot row P into every other row r of the
    row set.  When P is itself taken from that row set (`P = S[0]`, or bound from a scan over S) and the call has P as the *target*
    and the loop row as the row to add, the pivot is overwritten with the product of everything and the rows that had to be cleared
    stay as they were.  (Accumulating into a scratch row — target an index expression outside the row set — is the other legitimate
    form and is left alone.)"""
    n = 0
    for c in calls_in(fn, nested=False):
        a = call_attr(c)
        if a not in ("row_sum", "tab_row_sum"):
            continue
        base = 4 if a == "row_sum" else 1
        kws = {k.arg: k.value for k in c.keywords}
        add = kws.get("row_to_add", c.args[base] if len(c.args) > base else None)
        tgt = kws.get("target_row", c.args[base + 1] if len(c.args) > base + 1 else None)
        if add is None or tgt is None:
            continue
        loop = parent(c)
        while loop is not None and not isinstance(loop, (ast.For, ast.FunctionDef)):
            loop = parent(loop)
        if not isinstance(loop, ast.For) or not isinstance(loop.target, ast.Name):
            continue
        v = loop.target.id
        roots = {x.id for x in ast.walk(loop.iter) if isinstance(x, ast.Name)}
        if not (isinstance(add, ast.Name) and add.id == v and isinstance(tgt, ast.Name) and tgt.id != v):
            continue
        P = tgt.id
        from_set = False
        for st in ast.walk(fn):
            if isinstance(st, ast.Assign) and any(isinstance(t, ast.Name) and t.id == P for t in st.targets):
                val = st.value
                if isinstance(val, ast.Subscript) and isinstance(val.value, ast.Name) and val.value.id in roots:
                    from_set = True
                if isinstance(val, ast.Name):
                    lp = parent(st)
                    while lp is not None and not isinstance(lp, ast.FunctionDef):
                        if isinstance(lp, ast.For) and isinstance(lp.target, ast.Name) and lp.target.id == val.id \
                                and {x.id for x in ast.walk(lp.iter) if isinstance(x, ast.Name)} & roots:
                            from_set = True
                        lp = parent(lp)
        if from_set:
            n += 1
            ctx.touch(m, fn)
            ctx.fail("own.rowops", m, c,
                     f"`{a}` in the loop over `{short(loop.iter)}` has the pivot `{P}` (a row taken from that set) as the target and the loop row `{v}` as the "
                     f"row to add: the elimination must multiply the pivot into every other row (row_to_add={P}, target_row={v}), otherwise the "
                     f"other rows keep their entry on the eliminated qubit and the pivot is overwritten",
                     func=qualname(fn), construct=f"{a}: pivot {P} as target in loop over {short(loop.iter, 30)}")
    return n


def _phase_derived(fn: ast.FunctionDef, e: ast.AST) -> bool:
    """``e`` mentions a `.phase` attribute, or a local name assigned (transitively) from such an expression."""
    derived: Set[str] = set()
    changed = True
    while changed:
        changed = False
        for st in ast.walk(fn):
            if isinstance(st, ast.Assign):
                tg = []
                for t in st.targets:
                    tg += [x.id for x in ast.walk(t) if isinstance(x, ast.Name) and isinstance(x.ctx, ast.Store)]
                src = st.value
                hit = any(isinstance(x, ast.Attribute) and x.attr in ("phase", "_phase") for x in ast.walk(src)) or \
                    any(isinstance(x, ast.Name) and x.id in derived for x in ast.walk(src))
                # the 3rd element of a row_sum result tuple is the sign vector
                if isinstance(src, ast.Call) and call_attr(src) == "row_sum" and isinstance(st.targets[0], ast.Tuple) \
                        and len(st.targets[0].elts) >= 3:
                    t3 = st.targets[0].elts[2]
                    tg = [t3.id] if isinstance(t3, ast.Name) else []
                    hit = len(src.args) > 2 and (any(isinstance(x, ast.Attribute) and x.attr in ("phase", "_phase") for x in ast.walk(src.args[2]))
                                                 or any(isinstance(x, ast.Name) and x.id in derived for x in ast.walk(src.args[2])))
                if hit:
                    for n in tg:
                        if n not in derived:
                            derived.add(n)
                            changed = True
            elif isinstance(st, (ast.For, ast.comprehension)):
                def _hit(src):
                    return any(isinstance(x, ast.Attribute) and x.attr in ("phase", "_phase") for x in ast.walk(src)) or \
                        any(isinstance(x, ast.Name) and x.id in derived for x in ast.walk(src))
                pairs = [(st.target, st.iter)]
                it = st.iter
                if isinstance(it, ast.Call) and call_name(it) == "zip" and isinstance(st.target, ast.Tuple) and len(st.target.elts) == len(it.args):
                    pairs = list(zip(st.target.elts, it.args))
                elif isinstance(it, ast.Call) and call_name(it) == "enumerate" and isinstance(st.target, ast.Tuple) and len(st.target.elts) == 2 and it.args:
                    pairs = [(st.target.elts[1], it.args[0])]
                for tgt_, src_ in pairs:
                    if _hit(src_):
                        for x in ast.walk(tgt_):
                            if isinstance(x, ast.Name) and x.id not in derived:
                                derived.add(x.id)
                                changed = True
    return any(isinstance(x, ast.Attribute) and x.attr in ("phase", "_phase") for x in ast.walk(e)) or \
        any(isinstance(x, ast.Name) and x.id in derived for x in ast.walk(e))



# --------------------------------------------------------------------------- signs of generator products, measurement row set


def rule_phase_combine(ctx: Ctx) -> None:
    """own.rowops (companion): the sign of a *product* of generators is only ever obtained through row_sum (which tracks the
    i-phase via g_function).  An expression that reduces several entries of a phase vector (sum / xor of phase[...] entries)
    computes a parity of signs, which is wrong as soon as the multiplied Paulis overlap."""
    repo = ctx.repo
    n = 0
    for rel in SIGN_MODULES:
        m = repo.module(rel)
        for fn in m.functions():
            if fn.name in ("row_sum", "g_function"):
                continue
            for node in ast.walk(fn):
                bad = None
                if isinstance(node, ast.Call) and call_attr(node) in ("sum", "bitwise_xor", "reduce", "count_nonzero", "prod") and node.args:
                    a0 = node.args[-1] if call_attr(node) == "reduce" else node.args[0]
                    if any(isinstance(x, ast.Subscript) and isinstance(x.value, ast.Attribute) and x.value.attr in ("phase", "_phase", "iphase")
                           and not isinstance(x.slice, (ast.Constant,)) for x in ast.walk(a0)):
                        bad = node
                if isinstance(node, ast.BinOp) and isinstance(node.op, (ast.BitXor, ast.Add)):
                    sides = [node.left, node.right]
                    if all(isinstance(x, ast.Subscript) and isinstance(x.value, ast.Attribute) and x.value.attr in ("phase", "_phase") for x in sides):
                        bad = node
                if bad is not None:
                    n += 1
                    ctx.fail("own.rowops", m, bad,
                             f"`{short(bad, 90)}` combines several sign-vector entries arithmetically; the sign of a product of generators must come "
                             f"from row_sum (g_function tracks the i-phase of overlapping Paulis), a parity of signs is wrong in general",
                             func=qualname(fn), construct=f"{qualname(fn)}: arithmetic on phase entries {short(bad, 60)}")
    ctx.ok_abstract("own.rowops", f"no arithmetic combination of sign-vector entries outside row_sum in {len(SIGN_MODULES)} modules")


def rule_measure_rowset(ctx: Ctx) -> None:
    """measure.rowset: in z_measurement_gate's random-outcome branch every row with an X on the measured qubit except the pivot
    is multiplied by the pivot (row_sum); the iterated row set may only be `np.nonzero(column)[0]` with the pivot removed."""
    repo = ctx.repo
    m = repo.module(CLIFF)
    fn = repo.anchor(CLIFF, "z_measurement_gate")
    ctx.touch(m, fn)
    loops = [l for l in ast.walk(fn) if isinstance(l, ast.For) and any(call_attr(c) == "row_sum" for c in calls_in(l))]
    rand = [l for l in loops if isinstance(l.iter, ast.Name)]
    if not rand:
        raise AnalysisError("z_measurement_gate: row_sum loop over the non-zero rows not found")
    l = rand[0]
    v = l.iter.id
    defs = [n for n in ast.walk(fn) if isinstance(n, ast.Assign) and any(norm(t) == v for t in n.targets)]
    ok = bool(defs)
    why = []
    for d in defs:
        val = d.value
        if isinstance(val, ast.Subscript) and isinstance(val.value, ast.Call) and call_attr(val.value) == "nonzero" and norm(val.slice) == "0":
            continue
        if isinstance(val, ast.Call) and call_attr(val) == "delete" and val.args and norm(val.args[0]) == v:
            continue
        ok = False
        why.append(short(d, 80))
    rs = [c for c in calls_in(l) if call_attr(c) == "row_sum"][0]
    tgt_ok = norm(rs.args[5]) == norm(l.target) if len(rs.args) > 5 else False
    if ok and tgt_ok:
        ctx.ok("measure.rowset", m, l, what="all rows with X on the measured qubit (pivot removed) are multiplied by the pivot")
    else:
        ctx.fail("measure.rowset", m, l,
                 f"z_measurement_gate multiplies the pivot into the rows `{v}`, but that set is restricted by {why or 'an unrecognised definition'}: "
                 f"every row (destabilizer or stabilizer) with an X on the measured qubit, except the pivot, must be updated, otherwise the "
                 f"tableau is no longer a valid tableau of the post-measurement state", func="z_measurement_gate",
                 construct=f"z_measurement_gate: row set {why[0] if why else v}")
    # the deterministic branch derives the outcome from a row_sum accumulation into the scratch row
    out_names = {norm(r.value.elts[1]) for r in ast.walk(fn) if isinstance(r, ast.Return) and isinstance(r.value, ast.Tuple) and len(r.value.elts) >= 2
                 and isinstance(r.value.elts[1], ast.Name)}
    if not out_names:
        raise AnalysisError("z_measurement_gate: no `return <tableau>, <outcome name>`")
    outs = [n for n in ast.walk(fn) if isinstance(n, ast.Assign) and norm(n.targets[0]) in out_names and not isinstance(n.value, ast.Constant)
            and "random" not in norm(n.value)]
    det = [n for n in outs if _phase_derived(fn, n.value)]
    scratch = [lp for lp in loops if lp is not l]
    if det and scratch and any(isinstance(x, ast.Subscript) for x in ast.walk(det[0].value)):
        src = det[0].value
        base = src.value if isinstance(src, ast.Subscript) else None
        rsum = [c for lp in scratch for c in calls_in(lp) if call_attr(c) == "row_sum"]
        tgt = parent(rsum[0]).targets[0].elts[2] if rsum and isinstance(parent(rsum[0]), ast.Assign) and isinstance(parent(rsum[0]).targets[0], ast.Tuple) else None
        if base is not None and tgt is not None and norm(base) == norm(tgt):
            ctx.ok("measure.rowset", m, det[0], what="deterministic outcome = sign of the row_sum-accumulated scratch row")
        else:
            ctx.fail("measure.rowset", m, det[0], f"the deterministic outcome `{short(det[0])}` is not read from the sign vector accumulated by row_sum",
                     func="z_measurement_gate", construct="z_measurement_gate: deterministic outcome source")
    else:
        node = outs[0] if outs else fn
        ctx.fail("measure.rowset", m, node,
                 "in the deterministic branch the outcome must be the sign of the product of the contributing stabilizers as accumulated by "
                 "row_sum into a scratch row; it is computed differently", func="z_measurement_gate", construct="z_measurement_gate: deterministic outcome not via row_sum")



def rule_phase_halves(ctx: Ctx, rels: List[str]) -> None:
    """num.halves: a tableau's sign vector is cut into its destabilizer / stabilizer halves at *its own* qubit count.
    A slice `X.phase[:k]` / `X.phase[k:]` whose bound k is another tableau's n_qubits puts the signs on the wrong generators
    as soon as the two tableaux differ in size."""
    repo = ctx.repo
    n = 0
    for rel in rels:
        m = repo.module(rel)
        for fn in m.functions():
            binds: Dict[str, str] = {}
            for st in ast.walk(fn):
                if isinstance(st, ast.Assign) and len(st.targets) == 1 and isinstance(st.targets[0], ast.Name) \
                        and isinstance(st.value, ast.Attribute) and st.value.attr == "n_qubits":
                    binds[st.targets[0].id] = norm(st.value.value)
            for node in ast.walk(fn):
                if not (isinstance(node, ast.Subscript) and isinstance(node.slice, ast.Slice) and isinstance(node.value, ast.Attribute)
                        and node.value.attr in ("phase", "iphase", "_phase", "_iphase")):
                    continue
                recv = norm(node.value.value)
                owners = set()
                for b in (node.slice.lower, node.slice.upper):
                    if b is None:
                        continue
                    for x in ast.walk(b):
                        if isinstance(x, ast.Name) and x.id in binds:
                            owners.add(binds[x.id])
                        if isinstance(x, ast.Attribute) and x.attr == "n_qubits":
                            owners.add(norm(x.value))
                if not owners:
                    continue
                n += 1
                ctx.touch(m, fn)
                foreign = sorted(o for o in owners if o != recv)
                if foreign:
                    ctx.fail("num.halves", m, node,
                             f"`{short(node)}` cuts the sign vector of `{recv}` at the qubit count of `{foreign[0]}`; the destabilizer / stabilizer "
                             f"halves of a tableau's phase vector are delimited by that tableau's own n_qubits, so for tableaux of different "
                             f"sizes the signs end up on the wrong generators", func=qualname(fn),
                             construct=f"{qualname(fn)}: {recv}.{node.value.attr} sliced at {foreign[0]}.n_qubits")
                else:
                    ctx.ok("num.halves", m, node)
    ctx.ok_abstract("num.halves", f"{n} phase-vector slices bounded by a qubit count analysed")



def rule_outcome_used(ctx: Ctx) -> None:
    """measure.outcome-used: a function that measures a qubit (z_measurement_gate) and then resets or removes it must use the
    outcome it obtained: the operator of the measured qubit is replaced by its eigenvalue in every other generator, i.e. the
    outcome decides a correction or a sign.  A bound-but-never-read outcome is a dropped sign (siblings reset_z / measure_*
    all consume theirs)."""
    repo = ctx.repo
    m = repo.module(CLIFF)
    n = 0
    for fn in [f for f in m.tree.body if isinstance(f, ast.FunctionDef)]:
        for st in ast.walk(fn):
            if isinstance(st, ast.Assign) and isinstance(st.value, ast.Call) and call_attr(st.value) == "z_measurement_gate" \
                    and isinstance(st.targets[0], ast.Tuple) and len(st.targets[0].elts) == 3:
                n += 1
                ctx.touch(m, fn)
                o = st.targets[0].elts[1]
                if isinstance(o, ast.Name) and o.id == "_":
                    ctx.fail("measure.outcome-used", m, st, f"{fn.name} discards the measurement outcome (`_`)", func=fn.name,
                             construct=f"{fn.name}: outcome discarded") if fn.name in ("remove_qubit", "reset_z") else ctx.ok("measure.outcome-used", m, st)
                    continue
                name = norm(o)
                reads = [x for x in ast.walk(fn) if isinstance(x, ast.Name) and x.id == name and isinstance(x.ctx, ast.Load)]
                if reads and fn.name == "remove_qubit":
                    # the eigenvalue must reach the signs on EVERY path (random and deterministic outcome alike)
                    def feeds_sign(node, nm=name):
                        return isinstance(node, (ast.Assign, ast.AugAssign)) and any(
                            isinstance(t, ast.Subscript) and isinstance(t.value, ast.Attribute) and t.value.attr in ("phase", "_phase")
                            for t in (node.targets if isinstance(node, ast.Assign) else [node.target])) and any(
                            isinstance(x, ast.Name) and x.id == nm for x in ast.walk(node.value))
                    from .. import flow as _flow
                    if _flow.must_pass(fn.body, feeds_sign):
                        ctx.ok("measure.outcome-used", m, st, what=f"{fn.name}: the measured eigenvalue is folded into the signs on every path")
                    else:
                        ctx.fail("measure.outcome-used", m, st,
                                 f"{fn.name} folds the measured eigenvalue `{name}` into the signs of the generators that act with Z on the removed qubit "
                                 f"only on some paths (under a condition on the kind of outcome): when the outcome was random and another generator "
                                 f"still carries Z on the removed qubit, that generator loses the eigenvalue (GHZ, remove one qubit with outcome 1: "
                                 f"|00> instead of |11>)", func=fn.name, construct=f"{fn.name}: outcome reaches the signs only conditionally")
                elif reads and fn.name.startswith("reset"):
                    # measure-and-reset: the state of the *other* qubits after the measurement depends on the outcome, so whatever the
                    # function does next must look at it on every path (a forced outcome that differs from the intended state included)
                    def reads_outcome(node, nm=name, defn=st):
                        return node is not defn and any(isinstance(x, ast.Name) and x.id == nm and isinstance(x.ctx, ast.Load) for x in ast.walk(node))
                    from .. import flow as _flow
                    if _flow.must_pass(fn.body, reads_outcome):
                        ctx.ok("measure.outcome-used", m, st, what=f"{fn.name}: the outcome is consulted on every path")
                    else:
                        ctx.fail("measure.outcome-used", m, st,
                                 f"{fn.name} has a path from the measurement to a return that never looks at the outcome `{name}`: when the outcome "
                                 f"was random the sign of the new stabilizer is simply overwritten with the intended state, so the other qubits are "
                                 f"left in the branch belonging to that state instead of the branch of the outcome that was measured (Bell pair, "
                                 f"forced outcome 1, reset to 0: |00> instead of |01>)", func=fn.name,
                                 construct=f"{fn.name}: a path ignores the measurement outcome")
                elif reads:
                    ctx.ok("measure.outcome-used", m, st, what=f"{fn.name} consumes the outcome")
                else:
                    ctx.fail("measure.outcome-used", m, st,
                             f"{fn.name} measures the qubit but never reads `{name}`: when the qubit is then dropped, every remaining generator "
                             f"that acts with Z on it must take the measured eigenvalue as a sign; with the outcome unused that sign is lost "
                             f"(removing an unentangled qubit in |1> flips another qubit)", func=fn.name,
                             construct=f"{fn.name}: measurement outcome `{name}` never read")
    if n == 0:
        raise AnalysisError("measure.outcome-used: no z_measurement_gate call found")


# --------------------------------------------------------------------------- sign.carry

_MATRIX_ATTRS = {"stabilizer", "destabilizer", "table", "x_matrix", "z_matrix", "stabilizer_x", "stabilizer_z", "destabilizer_x", "destabilizer_z",
                 "table_x", "table_z", "_table"}


def rule_sign_carry(ctx: Ctx, rels: List[str]) -> None:
    """sign.carry: a tableau object built from the *matrices* of another tableau (`StabilizerTableau(t.stabilizer)`,
    `StabilizerTableau([t.x_matrix, t.z_matrix])`, ...) also receives that tableau's sign vector; a one-argument construction
    silently resets every sign to +, i.e. turns the state into a different (orthogonal) one whenever a generator was negative."""
    repo = ctx.repo
    n = 0
    for rel in rels:
        m = repo.module(rel)
        for fn in [f for f in ast.walk(m.tree) if isinstance(f, ast.FunctionDef)]:
            env = {}
            for a in ast.walk(fn):
                if isinstance(a, ast.Assign) and len(a.targets) == 1 and isinstance(a.targets[0], ast.Name):
                    env.setdefault(a.targets[0].id, []).append(a.value)
            for c in calls_in(fn):
                cn = (call_name(c) or "").split(".")[-1]
                if cn not in ("StabilizerTableau", "CliffordTableau") or not c.args:
                    continue
                n += 1
                a0 = c.args[0]
                exprs = [a0]
                for x in ast.walk(a0):
                    if isinstance(x, ast.Name) and x.id in env:
                        exprs += env[x.id]
                owners = {norm(x.value) for e in exprs for x in ast.walk(e) if isinstance(x, ast.Attribute) and x.attr in _MATRIX_ATTRS
                          and isinstance(x.value, ast.Name) and x.value.id != "self"}
                if not owners:
                    ctx.ok("sign.carry", m, c, what=f"{fn.name}: `{short(c, 50)}` is not built from another tableau's matrices")
                    continue
                ctx.touch(m, fn)
                phase_args = list(c.args[1:]) + [k.value for k in c.keywords if k.arg in ("phase", "iphase")]
                carried = any(isinstance(x, ast.Attribute) and x.attr in ("phase", "_phase") and norm(x.value) in owners for p in phase_args for x in ast.walk(p))
                # matrices that are the *stabilizer half* of a Clifford tableau need the stabilizer half of its 2n-long sign vector
                half_attrs = {x.attr for e in exprs for x in ast.walk(e) if isinstance(x, ast.Attribute) and x.attr in ("stabilizer", "stabilizer_x", "stabilizer_z")
                              and isinstance(x.value, ast.Name) and x.value.id != "self"}
                whole_phase = [x for p in phase_args for x in ast.walk(p) if isinstance(x, ast.Attribute) and x.attr in ("phase", "_phase")
                               and norm(x.value) in owners and not isinstance(parent(x), ast.Subscript)]
                if carried and half_attrs and whole_phase and cn == "StabilizerTableau":
                    ctx.fail("sign.carry", m, c,
                             f"{fn.name} builds `{short(c, 70)}` from the stabilizer half {sorted(half_attrs)} of a Clifford tableau together with its whole "
                             f"sign vector `{norm(whole_phase[0])}` (length 2n: destabilizer signs first): StabilizerTableau ignores a sign vector of the "
                             f"wrong length and starts from all-plus signs, so the state's negative generators are lost (pass `.phase[n_qubits:]` or use "
                             f"to_stabilizer())", func=fn.name, construct=f"{fn.name}: stabilizer half paired with the 2n-long sign vector")
                elif carried:
                    ctx.ok("sign.carry", m, c, what=f"{fn.name}: matrices and sign vector taken from the same tableau")
                else:
                    ctx.fail("sign.carry", m, c,
                             f"{fn.name} builds `{short(c, 70)}` from the matrices of {sorted(owners)} without its sign vector: every generator of the new "
                             f"tableau is positive, so a state with a negative generator (a graph state after a Z, X or P_dag, say) becomes a "
                             f"different, orthogonal state", func=fn.name, construct=f"{fn.name}: tableau rebuilt from {sorted(owners)} without signs")
    if n == 0:
        raise AnalysisError("sign.carry: no tableau construction found in " + ", ".join(rels))


# --------------------------------------------------------------------------- own.fresh-storage

_FRESH_FUNCS = {"np.copy", "np.array", "np.zeros", "np.ones", "np.eye", "np.hstack", "np.vstack", "np.block", "np.concatenate", "np.insert",
                "np.delete", "np.zeros_like", "np.ones_like", "np.identity", "np.full", "np.append", "np.tile", "np.repeat", "copy.deepcopy", "copy.copy",
                "np.rint", "np.mod", "np.remainder", "np.logical_xor", "np.bitwise_xor", "np.roll", "block_diag"}
_STORAGE = ("_table", "_phase", "_iphase")


def _fresh_array(e: ast.AST) -> bool:
    """does `e` certainly evaluate to a newly allocated array (not a view / alias of something the caller still holds)?"""
    if isinstance(e, ast.BinOp) or isinstance(e, ast.UnaryOp):
        return True
    if isinstance(e, ast.Call):
        cn = call_name(e) or ""
        if cn in _FRESH_FUNCS:
            return True
        if isinstance(e.func, ast.Attribute) and e.func.attr == "astype":
            cp = get_kw(e, "copy")
            return not (isinstance(cp, ast.Constant) and cp.value is False)
        if isinstance(e.func, ast.Attribute) and e.func.attr in ("copy", "flatten", "tolist"):
            return True
    return False


def rule_fresh_storage(ctx: Ctx) -> None:
    """own.fresh-storage: the arrays a tableau object stores (table, sign vector, i-phase vector) are newly allocated at every
    assignment in the tableau classes — `np.copy(x)`, `x.astype(int)`, a constructor or an arithmetic result — and each field gets
    its own array.  `np.asarray(x, dtype=int)` returns x itself when x is already an int array, a bare name or a slice is an
    alias/view, and `self._phase = self._iphase = ...` makes two fields one array: in all three cases an in-place row operation on
    one tableau (row_sum, tab_row_swap) silently edits another array the state depends on."""
    repo = ctx.repo
    n = 0
    for rel, cname in ((TABLEAU, "StabilizerTableau"), (CTABLEAU, "CliffordTableau")):
        m = repo.module(rel)
        ci = repo.cls(cname, rel)
        for name, fn in ci.methods().items():
            for a in [x for x in ast.walk(fn) if isinstance(x, ast.Assign)]:
                fields = [t for t in a.targets if isinstance(t, ast.Attribute) and norm(t.value) == "self" and t.attr in _STORAGE]
                if not fields:
                    continue
                n += 1
                ctx.touch(m, fn)
                if len(fields) > 1:
                    ctx.fail("own.fresh-storage", m, a,
                             f"{cname}.{name} binds {[norm(t) for t in fields]} to one and the same array (`{short(a, 70)}`): an in-place update of "
                             f"the one (row_sum writes the i-phase entries) overwrites the other", func=f"{cname}.{name}",
                             construct=f"{cname}.{name}: storage fields share one array")
                    continue
                if _fresh_array(a.value):
                    ctx.ok("own.fresh-storage", m, a, what=f"{cname}.{name}: {fields[0].attr} is a newly allocated array")
                else:
                    ctx.fail("own.fresh-storage", m, a,
                             f"{cname}.{name} stores `{short(a.value, 60)}` as its `{fields[0].attr}` without copying: "
                             + ("np.asarray returns its argument itself when the dtype already matches, so " if "asarray" in norm(a.value) else "")
                             + "the new tableau shares the array with the caller's object (CliffordTableau.to_stabilizer passes a view of its own sign "
                             "vector), and a later in-place row operation on one silently changes the signs of the other",
                             func=f"{cname}.{name}", construct=f"{cname}.{name}: {fields[0].attr} aliases its argument")
    if n < 10:
        raise AnalysisError("own.fresh-storage: too few storage assignments found in the tableau classes")


# --------------------------------------------------------------------------- trace.keep-complement


def rule_keep_complement(ctx: Ctx, rels: List[str]) -> None:
    """trace.keep-complement: a method that traces *out* the qubits it is given and delegates to a partial trace taking the qubits to *keep*
    must hand over the complement of its parameter (all positions not in it), never the parameter itself."""
    repo = ctx.repo
    n = 0
    for rel in rels:
        m = repo.module(rel)
        for fn in [f for f in ast.walk(m.tree) if isinstance(f, ast.FunctionDef) and "trace_out" in f.name]:
            ps = [a.arg for a in fn.args.args if a.arg not in ("self", "cls")]
            if not ps:
                continue
            P = ps[0]
            defs = {}
            for a in ast.walk(fn):
                if isinstance(a, ast.Assign) and len(a.targets) == 1 and isinstance(a.targets[0], ast.Name):
                    defs[a.targets[0].id] = a.value
            for c in calls_in(fn):
                k = get_kw(c, "keep")
                if k is None:
                    continue
                n += 1
                ctx.touch(m, fn)
                e = k
                for _ in range(3):
                    if isinstance(e, ast.Name) and e.id in defs:
                        e = defs[e.id]
                txt = norm(e)
                names = {x.id for x in ast.walk(e) if isinstance(x, ast.Name)}
                compl = P in names and (
                    (isinstance(e, (ast.ListComp, ast.SetComp, ast.GeneratorExp)) and any(
                        isinstance(t, ast.Compare) and isinstance(t.ops[0], ast.NotIn) and P in {x.id for x in ast.walk(t.comparators[0]) if isinstance(x, ast.Name)}
                        for g in e.generators for t in g.ifs))
                    or (isinstance(e, ast.BinOp) and isinstance(e.op, ast.Sub) and P in {x.id for x in ast.walk(e.right) if isinstance(x, ast.Name)})
                    or any(isinstance(x, ast.BinOp) and isinstance(x.op, ast.Sub) and P in {y.id for y in ast.walk(x.right) if isinstance(y, ast.Name)} for x in ast.walk(e))
                    or "setdiff1d" in txt or ".difference(" in txt or "np.delete(" in txt)
                if compl:
                    ctx.ok("trace.keep-complement", m, c, what=f"{qualname(fn)}: keep = complement of `{P}`")
                else:
                    ctx.fail("trace.keep-complement", m, c,
                             f"{qualname(fn)} is given the qubits to trace out (`{P}`) and passes `{short(k)}` as the qubits to *keep*: "
                             f"the listed qubits survive and all others are removed (trace_out_qubits([2]) on 3 qubits leaves only qubit 2)",
                             func=qualname(fn), construct=f"{qualname(fn)}: keep={short(k, 50)}")
    if n == 0:
        raise AnalysisError("trace.keep-complement: no trace_out method delegating to a keep= partial trace was found")


# --------------------------------------------------------------------------- measure.basis-restored


def rule_basis_restored(ctx: Ctx) -> None:
    """measure.basis-restored: measure_x / measure_y rotate the measured qubit into the Z basis (H, resp. P_dag then H), measure it with
    z_measurement_gate — all in place on the caller's tableau — and return only the outcome.  The rotation must be undone afterwards
    (the product of the gates applied after the measurement and those applied before it is the identity); otherwise the caller's
    tableau is left collapsed *and rotated*: measuring |+> in X leaves it in |0>."""
    from .. import clifford as cl
    from . import gatesum
    repo = ctx.repo
    m = repo.module(CLIFF)
    n = 0
    for fn in [f for f in m.tree.body if isinstance(f, ast.FunctionDef) and f.name.startswith("measure_")]:
        meas = [c for c in calls_in(fn) if (call_attr(c) or getattr(c.func, "id", "")) == "z_measurement_gate"]
        if len(meas) != 1:
            continue
        q = func_params(fn)[1]

        def gates_of(st):
            out = []
            for c in sorted([x for x in ast.walk(st) if isinstance(x, ast.Call)], key=lambda c: (c.lineno, c.col_offset)):
                nm = call_attr(c) or getattr(c.func, "id", "")
                if nm == "z_measurement_gate":
                    out.append(("MEAS", None, None))
                    continue
                if len(c.args) != 2 or norm(c.args[1]) != q:
                    continue
                try:
                    kind, u = gatesum.summarise(repo, nm)
                except Exception:
                    continue
                if kind == "1":
                    out.append((nm, u, None))
            return out

        def paths(stmts):
            """every path through the if-structure: list of (token sequence, conditions taken)"""
            acc = [([], [])]
            for st in stmts:
                if isinstance(st, ast.If):
                    arms = [(paths(st.body), norm(st.test)), (paths(st.orelse), f"not ({norm(st.test)})")]
                    head = gates_of(st.test)
                    nxt = []
                    for seq, cond in acc:
                        for sub, label in arms:
                            for s2, c2 in sub:
                                nxt.append((seq + head + s2, cond + [label] + c2))
                    acc = nxt
                elif isinstance(st, (ast.For, ast.While, ast.Try, ast.With)):
                    if gates_of(st):
                        raise AnalysisError(f"{fn.name}: gates on the measured qubit inside a loop / try block")
                elif isinstance(st, ast.Return):
                    acc = [(seq + gates_of(st) + [("RET", None, None)], cond) for seq, cond in acc]
                else:
                    g = gates_of(st)
                    acc = [(seq + g if not (seq and seq[-1][0] == "RET") else seq, cond) for seq, cond in acc]
            return acc
        n += 1
        ctx.touch(m, fn)
        bad = None
        summary = None
        for seq, cond in paths(fn.body):
            names = [t[0] for t in seq]
            if "MEAS" not in names:
                continue
            k = names.index("MEAS")
            before = [t for t in seq[:k] if t[1] is not None]
            after = [t for t in seq[k + 1:] if t[1] is not None]
            if not before:
                summary = summary or f"{fn.name}: no basis change"
                continue
            tot = cl.I2
            for nm, u, _ in before + after:
                tot = cl.mm(u, tot)
            if cl.key(tot) == cl.key(cl.I2):
                summary = f"{fn.name}: {[b[0] for b in before]} undone by {[a[0] for a in after]}"
            else:
                bad = (before, after, cond)
                break
        if bad is None:
            ctx.ok("measure.basis-restored", m, meas[0], what=summary or f"{fn.name}: no basis change")
        else:
            before, after, cond = bad
            ctx.fail("measure.basis-restored", m, meas[0],
                     f"{fn.name} rotates qubit `{q}` with {[b[0] for b in before]} before the Z measurement and applies {[a[0] for a in after] or 'nothing'} after it"
                     + (f" on the path where {' and '.join(cond)}" if cond else "") +
                     f": the caller's tableau is left in the rotated frame (measuring |+> in the X basis leaves the qubit in |0>, not |+>)",
                     func=fn.name, construct=f"{fn.name}: basis change not undone")
    if n == 0:
        raise AnalysisError("measure.basis-restored: no measure_* function found")


# --------------------------------------------------------------------------- sibling.xz-rowops


def rule_xz_rowops(ctx: Ctx, rels: List[str]) -> None:
    """sibling.xz-rowops: a generator is one row of the X block *and* the same row of the Z block.  Wherever a function applies a row
    operation (row_swap / add_rows) to an X matrix it applies the same operation with the same row arguments to the matching Z matrix
    (names that differ only in x / z), in the same order — helpers included, since the pairing is judged inside every function."""
    import re as _re
    repo = ctx.repo
    n = 0
    for rel in rels:
        m = repo.module(rel)
        for fn in [f for f in ast.walk(m.tree) if isinstance(f, ast.FunctionDef)]:
            seqs = {}
            for a in sorted([x for x in ast.walk(fn) if isinstance(x, ast.Assign)], key=lambda x: (x.lineno, x.col_offset)):
                if len(a.targets) != 1 or not isinstance(a.value, ast.Call):
                    continue
                op = call_attr(a.value) or getattr(a.value.func, "id", None)
                if op not in ("row_swap", "add_rows") or not a.value.args:
                    continue
                t = norm(a.targets[0])
                if norm(a.value.args[0]) != t:
                    continue
                mt = _re.search(r"(^|[._])([xz])(_?mat(rix)?)$", t)
                if not mt:
                    continue
                side = mt.group(2)
                stem = t[:mt.start(2)] + "?" + t[mt.end(2):]
                seqs.setdefault(stem, {"x": [], "z": []})[side].append((op, tuple(norm(x) for x in a.value.args[1:]), a))
            for stem, d in seqs.items():
                n += 1
                ctx.touch(m, fn)
                xs = [(o, ar) for o, ar, _ in d["x"]]
                zs = [(o, ar) for o, ar, _ in d["z"]]
                if xs == zs:
                    ctx.ok("sibling.xz-rowops", m, fn, what=f"{qualname(fn)}: {len(xs)} row operation(s) mirrored on X and Z")
                    continue
                bad = None
                for i in range(max(len(xs), len(zs))):
                    if i >= len(xs) or i >= len(zs) or xs[i] != zs[i]:
                        bad = i
                        break
                node = (d["z"][bad][2] if bad < len(d["z"]) else d["x"][bad][2])
                xa = f"{xs[bad][0]}({', '.join(xs[bad][1])})" if bad < len(xs) else "nothing"
                za = f"{zs[bad][0]}({', '.join(zs[bad][1])})" if bad < len(zs) else "nothing"
                ctx.fail("sibling.xz-rowops", m, node,
                         f"{qualname(fn)} applies {xa} to the X block and {za} to the Z block (`{stem.replace('?', 'x')}` / `{stem.replace('?', 'z')}`): the two halves "
                         f"of the generators are no longer combined in the same way, so the rows stop describing products of the original generators",
                         func=qualname(fn), construct=f"{qualname(fn)}: X / Z row operations differ")
    if n == 0:
        raise AnalysisError("sibling.xz-rowops: no paired row operation found")


# --------------------------------------------------------------------------- size.stale-per-branch

# tableau functions that change the number of qubits of the tableau they are given *in place* (confirmed by reading clifford.py: they
# shrink / expand the argument and return it); a mixture method that calls one per branch changes the size the mixture reports
RESIZE_IN_PLACE = {"partial_trace", "remove_qubit", "insert_qubit", "add_qubit"}


def rule_size_stale_per_branch(ctx: Ctx) -> None:
    """size.stale-per-branch: MixedStabilizer.n_qubits reads the size of the *first* branch's tableau.  A method that walks the branches
    and resizes each tableau in place (partial_trace, remove_qubit, insert_qubit, add_qubit) must read sizes before the walk: an
    expression evaluated per branch that reads `self.n_qubits` sees the reduced size from the second branch on."""
    from . import gatesum
    repo = ctx.repo
    m = repo.module(gatesum.SSTATE)
    cm = repo.module(CLIFF)
    for f_ in RESIZE_IN_PLACE:
        if not isinstance(cm.find(f_), ast.FunctionDef):
            raise AnalysisError(f"size.stale-per-branch: clifford.{f_} no longer exists (table RESIZE_IN_PLACE is out of date)")
    ci = repo.cls("MixedStabilizer", gatesum.SSTATE)
    n = 0
    for name, fn in ci.methods().items():
        walks = []
        for x in ast.walk(fn):
            if isinstance(x, (ast.ListComp, ast.GeneratorExp)) and any(norm(g.iter) in ("self._mixture", "self.mixture") for g in x.generators):
                walks.append((x, [x.elt]))
            elif isinstance(x, ast.For) and norm(x.iter) in ("self._mixture", "self.mixture", "enumerate(self._mixture)", "enumerate(self.mixture)"):
                walks.append((x, x.body))
        for w, parts in walks:
            resize = [c for p_ in parts for c in ast.walk(p_) if isinstance(c, ast.Call) and (call_attr(c) or getattr(c.func, "id", "")) in RESIZE_IN_PLACE]
            if not resize:
                continue
            n += 1
            ctx.touch(m, fn)
            stale = [a for p_ in parts for a in ast.walk(p_) if isinstance(a, ast.Attribute) and norm(a) == "self.n_qubits"]
            stale += [a for p_ in parts for a in ast.walk(p_) if isinstance(a, ast.Subscript) and norm(a).startswith(("self._mixture[0]", "self.mixture[0]"))]
            if stale:
                ctx.fail("size.stale-per-branch", m, stale[0],
                         f"MixedStabilizer.{name} evaluates `{short(parent(stale[0]) if parent(stale[0]) is not None else stale[0], 70)}` once per branch while "
                         f"`{call_attr(resize[0]) or resize[0].func.id}` resizes each branch's tableau in place: `self.n_qubits` is the size of the first branch, which "
                         f"has already been reduced when the second branch is processed, so later branches lose further qubits "
                         f"(two 4-qubit branches, trace_out_qubits([0]): sizes 3 and 2)", func=f"MixedStabilizer.{name}",
                         construct=f"MixedStabilizer.{name}: self.n_qubits read per branch during an in-place resize")
            else:
                ctx.ok("size.stale-per-branch", m, w, what=f"MixedStabilizer.{name}: sizes read before the walk over the branches")
    if n == 0:
        raise AnalysisError("size.stale-per-branch: no per-branch resize found in MixedStabilizer")


# --------------------------------------------------------------------------- reset.basis


def rule_reset_basis(ctx: Ctx) -> None:
    """reset.basis: reset_x / reset_y reset the qubit to |s> with reset_z(tableau, q, intended_state) and then rotate it: for either value
    s of intended_state the gates applied afterwards form a Clifford U with U Z U^dagger = +X (reset_x) resp. +Y (reset_y), so that |0> -> |+>,
    |1> -> |-> (resp. |+i>, |-i>).  Tests on intended_state are evaluated for s = 0 and s = 1."""
    from .. import clifford as cl
    from . import gatesum
    repo = ctx.repo
    m = repo.module(CLIFF)
    for name, axis in (("reset_x", "+X"), ("reset_y", "+Y")):
        fn = repo.anchor(CLIFF, name)
        ctx.touch(m, fn)
        ps = func_params(fn)
        q, sp = ps[1], ps[2]
        rz = [c for c in calls_in(fn) if (call_attr(c) or getattr(c.func, "id", "")) == "reset_z"]
        if len(rz) != 1:
            raise AnalysisError(f"{name}: exactly one reset_z call expected")
        a3 = rz[0].args[2] if len(rz[0].args) > 2 else next((k.value for k in rz[0].keywords if k.arg == "intended_state"), None)
        if a3 is None or norm(a3) != sp:
            ctx.fail("reset.basis", m, rz[0], f"{name} resets the qubit with `{short(rz[0], 70)}`: the computational state must be the requested `{sp}`",
                     func=name, construct=f"{name}: reset_z not called with {sp}")
            continue

        def truth(t, sv):
            if isinstance(t, ast.Compare) and len(t.ops) == 1 and isinstance(t.ops[0], (ast.Eq, ast.NotEq, ast.Is, ast.IsNot)):
                l_, r_ = t.left, t.comparators[0]
                if isinstance(l_, ast.Constant):
                    l_, r_ = r_, l_
                if norm(l_) == sp and isinstance(r_, ast.Constant):
                    eq = (sv == r_.value)
                    return eq if isinstance(t.ops[0], (ast.Eq, ast.Is)) else not eq
            if isinstance(t, ast.Name) and t.id == sp:
                return bool(sv)
            if isinstance(t, ast.UnaryOp) and isinstance(t.op, ast.Not):
                return not truth(t.operand, sv)
            raise AnalysisError(f"{name}: test `{short(t)}` after the reset is not a test of `{sp}`")

        def run(stmts, sv, acc, started):
            for st in stmts:
                if isinstance(st, ast.If):
                    started = run(st.body if truth(st.test, sv) else st.orelse, sv, acc, started)
                    continue
                if isinstance(st, (ast.For, ast.While, ast.Try, ast.With)):
                    raise AnalysisError(f"{name}: loop / try block after the reset")
                for c in sorted([x for x in ast.walk(st) if isinstance(x, ast.Call)], key=lambda c: (c.lineno, c.col_offset)):
                    nm = call_attr(c) or getattr(c.func, "id", "")
                    if c is rz[0]:
                        started = True
                        continue
                    if not started or len(c.args) != 2 or norm(c.args[1]) != q:
                        continue
                    try:
                        kind, u = gatesum.summarise(repo, nm)
                    except Exception:
                        continue
                    if kind == "1":
                        acc.append((nm, u))
            return started
        bad = None
        for sv in (0, 1):
            acc = []
            run(fn.body, sv, acc, False)
            tot = cl.I2
            for nm, u in acc:
                tot = cl.mm(u, tot)
            img = cl.key(tot)[1]
            if img != axis:
                bad = (sv, [a for a, _ in acc], img)
                break
        if bad:
            sv, gs, img = bad
            ctx.fail("reset.basis", m, rz[0], f"{name} with {sp} = {sv} applies {gs or 'nothing'} after reset_z: that maps Z to {img}, so |{sv}> becomes the "
                     f"{'-' if (img[0] == '-') != (sv == 1) else '+'}1 eigenstate of {img[1]} instead of the {'-' if sv else '+'}1 eigenstate of {axis[1]}",
                     func=name, construct=f"{name}: rotation after reset_z maps Z to {img}")
        else:
            ctx.ok("reset.basis", m, rz[0], what=f"{name}: Z -> {axis} for both requested states")


# --------------------------------------------------------------------------- dim.symplectic-form


def rule_symplectic_form_dim(ctx: Ctx) -> None:
    """dim.symplectic-form: M P M'^T needs the form P = [[0, I], [I, 0]] to be as wide as M has *columns* (2n): its block size is half the
    column count.  Sized from the row count it only fits an n x 2n stabilizer table by coincidence; for the 2n x 2n table of a Clifford
    tableau the product has mismatched shapes and is_symplectic raises instead of answering."""
    repo = ctx.repo
    UT = "graphiq/backends/stabilizer/functions/utils.py"
    m = repo.module(UT)
    n = 0
    for fn in [f for f in m.tree.body if isinstance(f, ast.FunctionDef)]:
        blocks = [c for c in calls_in(fn) if (call_name(c) or "") == "np.block"]
        if not blocks:
            continue
        ps = func_params(fn)
        defs = {a.targets[0].id: a.value for a in ast.walk(fn) if isinstance(a, ast.Assign) and len(a.targets) == 1 and isinstance(a.targets[0], ast.Name)}
        for b in blocks:
            dims = {norm(x.args[0]) for x in ast.walk(b) if isinstance(x, ast.Call) and (call_name(x) or "") in ("np.eye", "np.identity") and x.args}
            if len(dims) != 1:
                continue
            d = dims.pop()
            src = defs.get(d)
            if src is None:
                continue
            n += 1
            ctx.touch(m, fn)
            t = norm(src)
            from_cols = any(f"{p_}.shape[1]" in t or f"np.shape({p_})[1]" in t for p_ in ps) and ("/ 2" in t or "// 2" in t or ">> 1" in t)
            from_rows = any(f"{p_}.shape[0]" in t or f"np.shape({p_})[0]" in t or f"len({p_})" in t for p_ in ps)
            # is the form multiplied with the parameter matrix in this function?
            pname = next((norm(a.targets[0]) for a in ast.walk(fn) if isinstance(a, ast.Assign) and any(x is b for x in ast.walk(a.value))), None)
            used = pname is not None and any(isinstance(x, ast.BinOp) and isinstance(x.op, ast.MatMult) and pname in (norm(x.left), norm(x.right)) for x in ast.walk(fn))
            if from_cols or not used:
                ctx.ok("dim.symplectic-form", m, b, what=f"{fn.name}: block size {t}")
            elif from_rows:
                ctx.fail("dim.symplectic-form", m, b,
                         f"{fn.name} sizes the symplectic form from the row count (`{d} = {t}`) and multiplies it with the matrix itself: the product "
                         f"needs a form as wide as the matrix has columns (block size = columns / 2); a 2n x 2n Clifford table makes it raise",
                         func=fn.name, construct=f"{fn.name}: form sized by rows")
            else:
                raise AnalysisError(f"{fn.name}: cannot tell where the block size `{d}` of the symplectic form comes from")
    if n == 0:
        raise AnalysisError("dim.symplectic-form: no symplectic form construction found")


# --------------------------------------------------------------------------- eq.decision


def rule_eq_decision(ctx: Ctx) -> None:
    """eq.decision: StabilizerTableau.__eq__ and CliffordTableau.__eq__ answer True exactly when the other object is a tableau of the same
    class and *every* storage field agrees (table and sign vector; for the Clifford tableau also the i-phase vector).  Decided on the
    truth table of the method (gqsa/boolform.py): a field compared with the wrong polarity, an `or` for an `and`, or a field left out
    is reported; how the conjunction is written is irrelevant."""
    from ..boolform import Table, Undecidable
    repo = ctx.repo
    for rel, cname, fields in ((TABLEAU, "StabilizerTableau", ["@.phase", "@.table"]), (CTABLEAU, "CliffordTableau", ["@.phase", "@.iphase", "@.table"])):
        m = repo.module(rel)
        ci = repo.cls(cname, rel)
        fn = ci.methods().get("__eq__")
        if fn is None:
            raise AnalysisError(f"{cname}.__eq__ missing")
        ctx.touch(m, fn)
        tb = Table()
        try:
            run = tb.outcomes(fn.body)
        except Undecidable as e:
            raise AnalysisError(f"{cname}.__eq__: not decidable ({e})")
        pair = {k: a.pair for k, a in tb.atoms.items() if a.pair is not None}
        guards = [k for k in tb.atoms if k not in pair]
        rows = list(tb.rows())
        accept = lambda a: run(a) == ("return", True)
        problems = []
        for f in fields:
            ks = [k for k, pf in pair.items() if pf == f or pf.replace("._", ".") == f or pf.endswith(f[1:])]
            if not ks:
                problems.append(f"`{f.replace('@', 'self')}` is not compared with the other tableau's")
                continue
            if any((not a[ks[0]]) and accept(a) for a in rows):
                problems.append(f"tableaux that differ in `{f[2:]}` compare equal")
        if any(all(a[k] for k in pair) and all(a[g] for g in guards) and not accept(a) for a in rows):
            problems.append("two tableaux of the class that agree in every field compare unequal")
        if any(accept(a) and not all(a[g] for g in guards) for a in rows):
            problems.append("an object that fails the class test can compare equal")
        if problems:
            ctx.fail("eq.decision", m, fn, f"{cname}.__eq__: " + "; ".join(problems), func=f"{cname}.__eq__", construct=f"{cname}.__eq__: decision table")
        else:
            ctx.ok("eq.decision", m, fn, what=f"{cname}.__eq__ == class test and {' and '.join(f[2:] for f in fields)} equal ({len(rows)} rows)")


# --------------------------------------------------------------------------- measure.indices


def rule_measure_indices(ctx: Ctx) -> None:
    """measure.indices: the index arithmetic of z_measurement_gate (Aaronson-Gottesman), as linear forms in n = n_qubits and q = the measured
    qubit.  Random outcome: p is the first non-zero entry of the X column among the *stabilizer* rows (index >= n); every other row with
    an X there gets row p multiplied in (row_sum(.., p, row)); destabilizer row p - n := row p; row p := 0 with a single 1 in column
    q + n (Z_q); sign[p] := outcome.  Deterministic outcome: a scratch row with index 2n (2n zero columns) accumulates the stabilizer
    rows i + n for the destabilizer rows i < n with an X; the outcome is the scratch row's sign r[2n]."""
    repo = ctx.repo
    m = repo.module(CLIFF)
    fn = repo.anchor(CLIFF, "z_measurement_gate")
    ctx.touch(m, fn)
    ps = func_params(fn)
    TB, Q = ps[0], ps[1]
    defs = {}
    for a in fn.body:
        if isinstance(a, ast.Assign) and len(a.targets) == 1 and isinstance(a.targets[0], ast.Name):
            defs[a.targets[0].id] = a.value
    N = next((k for k, v in defs.items() if norm(v) == f"{TB}.n_qubits"), None)
    if N is None:
        raise AnalysisError("z_measurement_gate: n_qubits local not found")
    bad: List[Tuple[ast.AST, str]] = []
    n_ok = 0

    def L(e):
        return linear.clean(linear.lin(e) or {"?": 1})

    def expect(node, e, want: Dict[str, int], what: str):
        nonlocal n_ok
        if L(e) == {k: v for k, v in want.items() if v != 0}:
            n_ok += 1
        else:
            bad.append((node, f"{what} is `{short(e)}`, expected {linear.show(want)}"))
    # -- the stabilizer-row search: an `if <entry> >= n` (or > n - 1) inside a loop, assigning p
    rows_with_x = next((k for k, v in defs.items() if isinstance(v, ast.Subscript) and isinstance(v.value, ast.Call) and call_name(v.value) in ("np.nonzero",)), None)
    search = [i for l in fn.body if isinstance(l, ast.For) for i in ast.walk(l) if isinstance(i, ast.If) and isinstance(i.test, ast.Compare) and N in norm(i.test)]
    if not search or rows_with_x is None:
        raise AnalysisError("z_measurement_gate: the search for a stabilizer row with an X was not found")
    t = search[0].test
    l_, op_, r_ = t.left, t.ops[0], t.comparators[0]
    if isinstance(op_, (ast.Lt, ast.LtE)):       # n <= entry
        l_, r_ = r_, l_
        op_ = {ast.Lt: ast.Gt, ast.LtE: ast.GtE}[type(op_)]()
    d = linear.clean(linear.sub(linear.lin(r_) or {"?": 1}, {N: 1}))
    okc = (isinstance(op_, ast.GtE) and d == {}) or (isinstance(op_, ast.Gt) and d == {"": -1})
    if okc and rows_with_x in norm(l_):
        n_ok += 1
    else:
        bad.append((t, f"the stabilizer row is searched with `{short(t)}`: stabilizer rows are those with index >= {N}"))
    pvar = next((norm(a.targets[0]) for a in ast.walk(search[0]) if isinstance(a, ast.Assign) and isinstance(a.targets[0], ast.Name) and rows_with_x in norm(a.value)), None)
    if pvar is None:
        raise AnalysisError("z_measurement_gate: the pivot row variable was not found")
    split = next((i for i in fn.body if isinstance(i, ast.If) and pvar in norm(i.test)), None)
    if split is None:
        raise AnalysisError("z_measurement_gate: random / deterministic split not found")
    from ..chains import positive as _pos
    tt, neg = _pos(split.test)
    rand_body, det_body = (split.orelse, split.body) if (neg != (isinstance(tt, ast.Compare) and isinstance(tt.ops[0], ast.Eq))) else (split.body, split.orelse)
    # -- random branch
    rs = [c for st in rand_body for c in ast.walk(st) if isinstance(c, ast.Call) and call_attr(c) == "row_sum" or (isinstance(c, ast.Call) and isinstance(c.func, ast.Name) and c.func.id == "row_sum")]
    if len(rs) != 1 or len(rs[0].args) != 6:
        raise AnalysisError("z_measurement_gate: row_sum of the random branch not found")
    lp = next((l for st in rand_body for l in ast.walk(st) if isinstance(l, ast.For) and any(x is rs[0] for x in ast.walk(l))), None)
    if lp is None or norm(rs[0].args[4]) != pvar or norm(rs[0].args[5]) != norm(lp.target):
        bad.append((rs[0], f"random branch: `{short(rs[0], 70)}` must multiply the pivot row `{pvar}` into each other row with an X"))
    else:
        n_ok += 1
    tname = next((norm(a.targets[0]) for st in rand_body for a in ast.walk(st) if isinstance(a, ast.Assign) and norm(a.value) == f"{TB}.table"), None)
    stores = [a for st in rand_body for a in ast.walk(st) if isinstance(a, ast.Assign) and isinstance(a.targets[0], ast.Subscript) and tname is not None
              and norm(a.targets[0].value) == tname]
    copy_ = [a for a in stores if isinstance(a.value, ast.Subscript) and norm(a.value.value) == tname]
    zero_ = [a for a in stores if isinstance(a.value, ast.Call) and call_name(a.value) == "np.zeros"]
    one_ = [a for a in stores if isinstance(a.value, ast.Constant) and a.value.value == 1]
    if len(copy_) == 1 and len(zero_) == 1 and len(one_) == 1:
        expect(copy_[0], copy_[0].targets[0].slice, {pvar: 1, N: -1}, "the destabilizer row that receives the old pivot row")
        expect(copy_[0], copy_[0].value.slice, {pvar: 1}, "the row copied into the destabilizer")
        expect(zero_[0], zero_[0].targets[0].slice, {pvar: 1}, "the row that is cleared")
        expect(zero_[0], zero_[0].value.args[0], {N: 2}, "the width of the cleared row")
        sl = one_[0].targets[0].slice
        if isinstance(sl, ast.Tuple) and len(sl.elts) == 2:
            expect(one_[0], sl.elts[0], {pvar: 1}, "the row that becomes Z_q")
            expect(one_[0], sl.elts[1], {Q: 1, N: 1}, "the column of the single 1 (the Z part of the measured qubit)")
        else:
            bad.append((one_[0], "the new stabilizer Z_q is not written as table[p, q + n] = 1"))
        if not (copy_[0].lineno < zero_[0].lineno < one_[0].lineno):
            bad.append((copy_[0], "the pivot row must be copied to the destabilizer before it is cleared and set to Z_q"))
        if lp is not None and not (copy_[0].lineno > (lp.end_lineno or lp.lineno)):
            bad.append((copy_[0], f"the pivot row is copied into the destabilizer row before the loop that multiplies the pivot into the rows `{short(lp.iter)}`: that row "
                                  f"set was computed earlier and contains destabilizer row {pvar} - n whenever the old destabilizer had an X on the measured "
                                  f"qubit, so the fresh copy is multiplied by the pivot again and collapses to the identity (the copy belongs after the loop)"))
    else:
        raise AnalysisError("z_measurement_gate: the three table stores of the random branch (copy, clear, set Z_q) were not found")
    sg = [a for st in rand_body for a in ast.walk(st) if isinstance(a, ast.Assign) and isinstance(a.targets[0], ast.Subscript) and norm(a.targets[0].value) in (f"{TB}.phase", f"{TB}._phase")]
    if len(sg) == 1:
        expect(sg[0], sg[0].targets[0].slice, {pvar: 1}, "the sign entry that receives the outcome")
    else:
        bad.append((split, "random branch: the outcome is not stored into the sign of the new stabilizer row"))
    rnd = [c for st in rand_body for c in ast.walk(st) if isinstance(c, ast.Call) and (call_name(c) or "").endswith("random.randint")]
    if rnd:
        a_ = [x.value if isinstance(x, ast.Constant) else None for x in rnd[0].args[:2]]
        if a_ != [0, 2]:
            bad.append((rnd[0], f"the random outcome is drawn with `{short(rnd[0])}`; randint(0, 2) draws 0 or 1 with equal probability"))
        else:
            n_ok += 1
    # -- deterministic branch
    rs2 = [c for st in det_body for c in ast.walk(st) if isinstance(c, ast.Call) and (call_attr(c) == "row_sum" or (isinstance(c.func, ast.Name) and c.func.id == "row_sum"))]
    if len(rs2) != 1 or len(rs2[0].args) != 6:
        raise AnalysisError("z_measurement_gate: row_sum of the deterministic branch not found")
    lp2 = next((l for st in det_body for l in ast.walk(st) if isinstance(l, ast.For) and any(x is rs2[0] for x in ast.walk(l))), None)
    if lp2 is not None and isinstance(lp2.target, ast.Name):
        expect(rs2[0], rs2[0].args[4], {lp2.target.id: 1, N: 1}, "the stabilizer row multiplied into the scratch row")
        expect(rs2[0], rs2[0].args[5], {N: 2}, "the index of the scratch row")
        it = lp2.iter
        sel = isinstance(it, ast.Subscript) and isinstance(it.slice, ast.Compare) and len(it.slice.ops) == 1
        if sel:
            c_ = it.slice
            lo, oo, ro = c_.left, c_.ops[0], c_.comparators[0]
            if isinstance(oo, (ast.Gt, ast.GtE)):
                lo, ro = ro, lo
                oo = {ast.Gt: ast.Lt, ast.GtE: ast.LtE}[type(oo)]()
            d2 = linear.clean(linear.sub(linear.lin(ro) or {"?": 1}, {N: 1}))
            if (isinstance(oo, ast.Lt) and d2 == {}) or (isinstance(oo, ast.LtE) and d2 == {"": -1}):
                n_ok += 1
            else:
                bad.append((it, f"the deterministic outcome sums over `{short(it)}`: the destabilizer rows are those with index < {N}"))
        else:
            bad.append((it, f"the deterministic outcome sums over `{short(it)}` instead of the destabilizer rows (index < {N}) that have an X"))
    outs = [a for st in det_body for a in ast.walk(st) if isinstance(a, ast.Assign) and isinstance(a.value, ast.Subscript) and isinstance(a.targets[0], ast.Name)
            and "outcome" in a.targets[0].id or (isinstance(a, ast.Assign) and isinstance(a.value, ast.Subscript) and norm(a.value.value) == norm(rs2[0].args[2]))]
    if outs:
        expect(outs[0], outs[0].value.slice, {N: 2}, "the sign entry the deterministic outcome is read from")
    vs = [c for st in det_body for c in ast.walk(st) if isinstance(c, ast.Call) and call_name(c) == "np.zeros" and c.args]
    if vs:
        expect(vs[0], vs[0].args[0], {N: 2}, "the width of the scratch row")
    if bad:
        for node, why in bad:
            ctx.fail("measure.indices", m, node, f"z_measurement_gate: {why}", func="z_measurement_gate", construct=f"z_measurement_gate: {why[:70]}")
    else:
        ctx.ok("measure.indices", m, fn, what=f"{n_ok} index expressions of the measurement agree with the Aaronson-Gottesman layout")


# --------------------------------------------------------------------------- insert.layout


def rule_insert_layout(ctx: Ctx) -> None:
    """insert.layout: insert_qubit adds an unentangled |0> at `new_position`: each of the four n x n blocks (destabilizer x / z, stabilizer
    x / z) receives a zero column (length n) and then a zero row (length n + 1) at that position; the sign and i-phase vectors receive a
    0 at positions p and n + p (both counted in the old 2n-vector); the blocks are re-assembled as [[dx, dz], [sx, sz]]; finally the
    new destabilizer is X_p and the new stabilizer is Z_p (the 1 goes into destabilizer_x[p, p] and stabilizer_z[p, p])."""
    repo = ctx.repo
    m = repo.module(CLIFF)
    fn = repo.anchor(CLIFF, "insert_qubit")
    ctx.touch(m, fn)
    TB, P = func_params(fn)[:2]
    defs = {a.targets[0].id: a.value for a in fn.body if isinstance(a, ast.Assign) and len(a.targets) == 1 and isinstance(a.targets[0], ast.Name)}
    N = next((k for k, v in defs.items() if norm(v) == f"{TB}.n_qubits"), None)
    if N is None:
        raise AnalysisError("insert_qubit: n_qubits local not found")
    bad: List[str] = []

    def L(e):
        return linear.clean(linear.lin(e) or {"?": 1})

    def zeros_len(e):
        for _ in range(2):
            if isinstance(e, ast.Name) and e.id in defs:
                e = defs[e.id]
        if isinstance(e, ast.Call) and call_name(e) in ("np.zeros",) and e.args:
            return L(e.args[0])
        if isinstance(e, ast.Constant) and e.value == 0:
            return "scalar0"
        return None
    from ..core import unroll_literal_loops as _unroll
    body_u = _unroll(fn).body          # `for index in (p, n + p): v = np.insert(v, index, 0)` reads as the two inserts
    ins = [a for a in body_u if isinstance(a, ast.Assign) and isinstance(a.value, ast.Call) and call_name(a.value) == "np.insert"]
    blocks = {}
    # names that start as one of the tableau's sign vectors (`new_phase, new_iphase = tableau.phase, tableau.iphase`) and grow by single inserts
    alias = {}
    for a in body_u:
        if isinstance(a, ast.Assign) and len(a.targets) == 1:
            t_, v_ = a.targets[0], a.value
            pairs = list(zip(t_.elts, v_.elts)) if isinstance(t_, ast.Tuple) and isinstance(v_, ast.Tuple) and len(t_.elts) == len(v_.elts) else [(t_, v_)]
            for tt, vv in pairs:
                if isinstance(tt, ast.Name) and norm(vv) in (f"{TB}.phase", f"{TB}.iphase"):
                    alias[tt.id] = norm(vv).split(".")[-1]
    seq = {}
    for a in list(ins):
        c = a.value
        if get_kw(c, "axis") is None and len(c.args) >= 3 and isinstance(c.args[0], ast.Name) and c.args[0].id in alias and norm(a.targets[0]) == c.args[0].id \
                and not isinstance(c.args[1], (ast.List, ast.Tuple)):
            seq.setdefault(alias[c.args[0].id], []).append((a, c))
            ins.remove(a)
    for kind, steps in seq.items():
        idx = [L(c.args[1]) for _, c in steps]
        good = len(steps) == 2 and (idx == [{P: 1}, {P: 1, N: 1, "": 1}] or idx == [{P: 1, N: 1}, {P: 1}])
        if not good:
            bad.append(f"`{short(steps[-1][0])}`: the {kind} vector grows by single inserts at {[linear.show(i) for i in idx]}; done one after the other the new entries "
                       f"belong at {P} and then {N} + {P} + 1 (the first insert has already shifted the stabilizer half), or at {N} + {P} first and then {P}")
        if any(zeros_len(c.args[2]) != "scalar0" for _, c in steps):
            bad.append(f"`{short(steps[0][0])}`: the inserted sign must be 0")
        blocks[kind] = norm(steps[-1][0].targets[0])
    for a in ins:
        c = a.value
        if len(c.args) < 3:
            bad.append(f"`{short(a)}`: np.insert(array, position, values, axis) expected")
            continue
        ax = get_kw(c, "axis")
        src = norm(c.args[0])
        tgt = norm(a.targets[0])
        if ax is None:
            # the two phase vectors
            if src in (f"{TB}.phase", f"{TB}.iphase"):
                pos = c.args[1]
                okp = isinstance(pos, (ast.List, ast.Tuple)) and len(pos.elts) == 2 and L(pos.elts[0]) == {P: 1} and L(pos.elts[1]) == {P: 1, N: 1}
                if not okp:
                    bad.append(f"`{short(a)}`: the new sign entries belong at positions {P} and {N} + {P} of the old vector")
                if zeros_len(c.args[2]) != "scalar0":
                    bad.append(f"`{short(a)}`: the inserted sign must be 0")
                blocks[src.split(".")[-1]] = tgt
            else:
                bad.append(f"`{short(a)}`: insertion without axis into something that is not a phase vector")
            continue
        if L(c.args[1]) != {P: 1}:
            bad.append(f"`{short(a)}`: the insertion position must be {P}")
        axis = ax.value if isinstance(ax, ast.Constant) else None
        zl = zeros_len(c.args[2])
        if axis == 1:
            if zl != {N: 1}:
                bad.append(f"`{short(a)}`: the new column has {N} zero entries")
            if not src.startswith(f"{TB}."):
                bad.append(f"`{short(a)}`: the column goes into a block of the tableau first")
            blocks.setdefault(tgt, {})["block"] = src.split(".")[-1]
            blocks[tgt]["col"] = True
        elif axis == 0:
            if zl != {N: 1, "": 1}:
                bad.append(f"`{short(a)}`: the new row has {N} + 1 zero entries (the column was added before)")
            if src != tgt or not blocks.get(tgt, {}).get("col"):
                bad.append(f"`{short(a)}`: the row is inserted into the block that already received its column")
            else:
                blocks[tgt]["row"] = True
        else:
            bad.append(f"`{short(a)}`: axis must be 0 or 1")
    done = {v["block"]: k for k, v in blocks.items() if isinstance(v, dict) and v.get("col") and v.get("row")}
    for b in ("destabilizer_x", "destabilizer_z", "stabilizer_x", "stabilizer_z"):
        if b not in done:
            bad.append(f"block {b} does not receive both a zero column and a zero row")
    blk = [c for c in calls_in(fn) if call_name(c) == "np.block" and c.args and isinstance(c.args[0], ast.List)]
    if len(blk) == 1 and len(blk[0].args[0].elts) == 2 and all(isinstance(r, ast.List) and len(r.elts) == 2 for r in blk[0].args[0].elts):
        got = [[norm(x) for x in r.elts] for r in blk[0].args[0].elts]
        want = [[done.get("destabilizer_x"), done.get("destabilizer_z")], [done.get("stabilizer_x"), done.get("stabilizer_z")]]
        if got != want:
            bad.append(f"the new table is assembled as {got}; the layout is [[destabilizer x, destabilizer z], [stabilizer x, stabilizer z]]")
    else:
        bad.append("the new table is not assembled with np.block([[dx, dz], [sx, sz]])")
    ones = [a for a in fn.body if isinstance(a, ast.Assign) and isinstance(a.targets[0], ast.Subscript) and isinstance(a.value, ast.Constant) and a.value.value == 1]
    where = {}
    for a in ones:
        t = a.targets[0]
        if isinstance(t.slice, ast.Tuple) and len(t.slice.elts) == 2 and L(t.slice.elts[0]) == {P: 1} and L(t.slice.elts[1]) == {P: 1}:
            where[norm(t.value).split(".")[-1]] = a
        else:
            bad.append(f"`{short(a)}`: the 1 of the new qubit sits at [{P}, {P}] of its block")
    if set(where) != {"destabilizer_x", "stabilizer_z"}:
        bad.append(f"the new qubit is set through {sorted(where)}; |0> has destabilizer X (destabilizer_x[p, p] = 1) and stabilizer Z (stabilizer_z[p, p] = 1)")
    exp = [c for c in calls_in(fn) if call_attr(c) == "expand"]
    if exp and ones and not all(a.lineno > exp[0].lineno for a in ones):
        bad.append("the 1s of the new qubit are written before the tableau is expanded")
    if exp and len(exp[0].args) == 3:
        if [norm(x) for x in exp[0].args[1:]] != [blocks.get("phase"), blocks.get("iphase")]:
            bad.append(f"`{short(exp[0])}`: expand(table, phase, iphase) receives the vectors in the wrong order")
    if bad:
        for why in dict.fromkeys(bad):
            ctx.fail("insert.layout", m, fn, f"insert_qubit: {why}", func="insert_qubit", construct=f"insert_qubit: {why[:70]}")
    else:
        ctx.ok("insert.layout", m, fn, what="4 blocks x (column, row), 2 vectors, block assembly, X_p / Z_p")


# --------------------------------------------------------------------------- tensor.layout


def rule_tensor_layout(ctx: Ctx) -> None:
    """tensor.layout: sfc.tensor builds the tableau of A (x) B: every block is block_diag(A.block, B.block) — A first, same block of both —,
    the blocks are assembled as [[dx, dz], [sx, sz]], and each of the sign / i-phase vectors is (A destabilizer half, B destabilizer half,
    A stabilizer half, B stabilizer half): both are split in two and interleaved in that order."""
    repo = ctx.repo
    m = repo.module(CLIFF)
    fn = repo.anchor(CLIFF, "tensor")
    ctx.touch(m, fn)
    loops = [l for l in fn.body if isinstance(l, ast.For) and isinstance(l.target, ast.Name)]
    if len(loops) != 1:
        raise AnalysisError("tensor: the loop over the remaining tableaux was not found")
    lp = loops[0]
    B = lp.target.id
    exp = [c for c in calls_in(lp) if call_attr(c) == "expand"]
    if len(exp) != 1 or len(exp[0].args) != 3:
        raise AnalysisError("tensor: <acc>.expand(table, phase, iphase) not found")
    A = norm(exp[0].func.value)
    defs = {a.targets[0].id: a.value for a in lp.body if isinstance(a, ast.Assign) and len(a.targets) == 1 and isinstance(a.targets[0], ast.Name)}
    bad: List[str] = []
    blocks = {}
    for k, v in defs.items():
        if isinstance(v, ast.Call) and (call_name(v) or "").split(".")[-1] == "block_diag":
            args = [norm(x) for x in v.args]
            if len(args) == 2 and args[0].startswith(A + ".") and args[1].startswith(B + ".") and args[0].split(".")[-1] == args[1].split(".")[-1]:
                blocks[args[0].split(".")[-1]] = k
            else:
                bad.append(f"`{k} = {short(v)}`: a block of the product is block_diag(<{A}>.block, <{B}>.block) of the *same* block, accumulated tableau first")
    for b in ("destabilizer_x", "destabilizer_z", "stabilizer_x", "stabilizer_z"):
        if b not in blocks:
            bad.append(f"block {b} of the product is not built")
    tname = norm(exp[0].args[0])
    tv = defs.get(tname)
    if isinstance(tv, ast.Call) and call_name(tv) == "np.block" and tv.args and isinstance(tv.args[0], ast.List) and len(tv.args[0].elts) == 2:
        got = [[norm(x) for x in r.elts] for r in tv.args[0].elts if isinstance(r, ast.List)]
        want = [[blocks.get("destabilizer_x"), blocks.get("destabilizer_z")], [blocks.get("stabilizer_x"), blocks.get("stabilizer_z")]]
        if got != want:
            bad.append(f"the table is assembled as {got}, the layout is [[destabilizer x, destabilizer z], [stabilizer x, stabilizer z]]")
    else:
        bad.append("the product table is not assembled with np.block([[dx, dz], [sx, sz]])")
    for pos, field in ((1, "phase"), (2, "iphase")):
        v = defs.get(norm(exp[0].args[pos]))
        while isinstance(v, ast.Call) and call_attr(v) == "astype":
            v = v.func.value
        if not (isinstance(v, ast.Call) and call_name(v) in ("np.hstack", "np.concatenate") and v.args and isinstance(v.args[0], (ast.Tuple, ast.List)) and len(v.args[0].elts) == 4):
            bad.append(f"the {field} vector of the product is not the concatenation of four halves")
            continue
        parts = []
        for e in v.args[0].elts:
            if isinstance(e, ast.Subscript) and isinstance(e.slice, ast.Constant) and isinstance(e.value, ast.Name) and e.value.id in defs:
                sp = defs[e.value.id]
                if isinstance(sp, ast.Call) and call_name(sp) == "np.split" and len(sp.args) == 2 and isinstance(sp.args[1], ast.Constant) and sp.args[1].value == 2:
                    owner = "A" if norm(sp.args[0]) == f"{A}.{field}" else ("B" if norm(sp.args[0]) == f"{B}.{field}" else "?")
                    parts.append((owner, e.slice.value))
                    continue
            parts.append(("?", None))
        if parts != [("A", 0), ("B", 0), ("A", 1), ("B", 1)]:
            bad.append(f"the {field} vector is assembled from {parts}; it must be (A destabilizers, B destabilizers, A stabilizers, B stabilizers) with each "
                       f"vector split in two halves")
    if bad:
        for why in dict.fromkeys(bad):
            ctx.fail("tensor.layout", m, lp, f"tensor: {why}", func="tensor", construct=f"tensor: {why[:70]}")
    else:
        ctx.ok("tensor.layout", m, lp, what="4 block_diag blocks, block assembly, interleaved halves of phase and iphase")
