"""noise.placement: the noise-placement logic of CompilerBase.compile, decided by abstract interpretation over a finite model.

For one operation the compile loop decides, from a handful of facts, which hooks run in which order: the gate itself
(compile_one_gate), the additional noise (_apply_additional_noise, which reads op.noise at that moment) or the replacement
(compile_one_noisy_gate).  The facts form a small finite model:
    noise simulation on / off  x  controlled pair or not  x  kind of each noise slot (NoNoise / additional / replacement)
    x  "After gate" flag of each slot.
The body of the loop is interpreted for every point of the model (the tests are evaluated from the model, the temporary
re-bindings of op.noise are tracked symbolically, the hook calls are recorded as a trace) and each trace is compared with what the
model prescribes:  no noise -> [gate];  additional noise -> the slot's noise exactly once, after the gate iff its flag says so;
replacement -> [noisy gate];  op.noise holds the original objects again at the end.  Nothing of graphiq is executed."""
from __future__ import annotations

import ast
import itertools
from typing import Dict, List, Optional, Tuple

from ..core import AnalysisError, call_attr, call_name, calls_in, func_params, norm, short
from ..report import Ctx

BASE = "graphiq/backends/compiler_base.py"


class _Unmodelled(Exception):
    pass


class _Raise(Exception):
    pass


class _Interp:
    def __init__(self, model: Dict, opname: str):
        self.mo = model
        self.op = opname
        self.env: Dict[str, object] = {}
        self.noise = ["C", "T"] if model["controlled"] else "S"     # what op.noise is bound to right now
        self.trace: List[Tuple] = []

    # ---- symbols: 'C', 'T', 'S' are the original noise objects; 'NO' is a NoNoise placeholder
    def kind(self, sym) -> str:
        if sym == "NO":
            return "No"
        return self.mo["kind"][sym]

    def val(self, e: ast.AST):
        if isinstance(e, ast.Constant):
            return e.value
        if isinstance(e, ast.Name):
            if e.id in self.env:
                return self.env[e.id]
            raise _Unmodelled(f"name `{e.id}`")
        if isinstance(e, ast.Attribute):
            t = norm(e)
            if t == f"{self.op}.noise":
                return list(self.noise) if isinstance(self.noise, list) else self.noise
            if t in ("self._noise_simulation", "self.noise_simulation"):
                return self.mo["sim"]
            if t in ("nm.NoNoise", "NoNoise"):
                return "NO"
            raise _Unmodelled(f"attribute `{t}`")
        if isinstance(e, ast.Call) and (call_name(e) or "").split(".")[-1] == "NoNoise" and not e.args:
            return "NO"
        if isinstance(e, ast.Call) and call_attr(e) == "get" and e.args and isinstance(e.args[0], ast.Constant) and e.args[0].value == "After gate" \
                and isinstance(e.func.value, ast.Attribute) and e.func.value.attr == "noise_parameters":
            # <noise>.noise_parameters.get("After gate"[, default]): every noise model's constructor sets the key, so this reads the flag
            sym = self.val(e.func.value.value)
            if sym == "NO":
                return True
            return self.mo["after"][sym]
        if isinstance(e, ast.Subscript):
            if isinstance(e.slice, ast.Constant) and isinstance(e.slice.value, str):
                # <noise>.noise_parameters["After gate"]
                if e.slice.value == "After gate" and isinstance(e.value, ast.Attribute) and e.value.attr == "noise_parameters":
                    sym = self.val(e.value.value)
                    if sym == "NO":
                        return True
                    return self.mo["after"][sym]
                raise _Unmodelled(f"key `{e.slice.value}`")
            base = self.val(e.value)
            idx = self.val(e.slice)
            if isinstance(base, list) and isinstance(idx, int):
                return base[idx]
            raise _Unmodelled(f"subscript `{norm(e)}`")
        if isinstance(e, (ast.List, ast.Tuple)):
            return [self.val(x) for x in e.elts]
        if isinstance(e, ast.UnaryOp) and isinstance(e.op, ast.Not):
            return not self.val(e.operand)
        if isinstance(e, ast.BoolOp):
            vals = [self.val(v) for v in e.values]
            return all(vals) if isinstance(e.op, ast.And) else any(vals)
        if isinstance(e, ast.IfExp):
            return self.val(e.body) if self.val(e.test) else self.val(e.orelse)
        if isinstance(e, ast.Compare) and len(e.ops) == 1 and isinstance(e.ops[0], (ast.NotIn, ast.In)) and norm(e.comparators[0]) == "self.ops":
            return isinstance(e.ops[0], ast.In)      # the operation is supported by this compiler
        if isinstance(e, ast.Call) and isinstance(e.func, ast.Name) and e.func.id == "isinstance" and len(e.args) == 2:
            subj, cls_ = e.args
            cn = norm(cls_).split(".")[-1]
            if norm(subj) == self.op:
                if cn == "ControlledPairOperationBase":
                    return self.mo["controlled"] == "pair"
                if cn == "ClassicalControlledPairOperationBase":
                    return self.mo["controlled"] == "classical"
                raise _Unmodelled(f"class `{cn}`")
            sym = self.val(subj)
            if isinstance(sym, list):
                return cn == "list"
            k = self.kind(sym)
            if cn == "NoNoise":
                return k == "No"
            if cn == "AdditionNoiseBase":
                return k in ("No", "Add")
            if cn == "ReplacementNoiseBase":
                return k == "Repl"
            if cn == "list":
                return False
            raise _Unmodelled(f"class `{cn}`")
        raise _Unmodelled(f"expression `{short(e)}`")

    def run(self, stmts: List[ast.stmt]) -> None:
        for st in stmts:
            if isinstance(st, ast.Expr) and isinstance(st.value, ast.Constant):
                continue
            if isinstance(st, ast.If):
                self.run(st.body if self.val(st.test) else st.orelse)
                continue
            if isinstance(st, ast.Raise):
                raise _Raise()
            if isinstance(st, ast.Assign) and len(st.targets) == 1:
                t = st.targets[0]
                if isinstance(t, ast.Name):
                    self.env[t.id] = self.val(st.value)
                    continue
                if isinstance(t, ast.Attribute) and norm(t) == f"{self.op}.noise":
                    self.noise = self.val(st.value)
                    continue
                raise _Unmodelled(f"assignment `{short(st)}`")
            if isinstance(st, ast.Expr) and isinstance(st.value, ast.Call):
                a = call_attr(st.value)
                if a == "compile_one_gate":
                    self.trace.append(("G",))
                    continue
                if a == "_apply_additional_noise":
                    self.trace.append(("N", tuple(self.noise) if isinstance(self.noise, list) else self.noise))
                    continue
                if a == "compile_one_noisy_gate":
                    self.trace.append(("R",))
                    continue
                raise _Unmodelled(f"call `{short(st)}`")
            if isinstance(st, (ast.Pass,)):
                continue
            raise _Unmodelled(f"statement `{short(st)}`")


def _models():
    for sim in (True, False):
        for k in ("No", "Add", "Repl"):
            for af in (True, False):
                yield {"sim": sim, "controlled": None, "kind": {"S": k}, "after": {"S": af}}
        for ctl in ("pair", "classical"):
            for kc, kt in itertools.product(("No", "Add", "Repl"), repeat=2):
                for ac, at in itertools.product((True, False), repeat=2):
                    yield {"sim": sim, "controlled": ctl, "kind": {"C": kc, "T": kt}, "after": {"C": ac, "T": at}}


def _expected(mo) -> Optional[object]:
    """'raise' | list of admissible normalised traces (positions of each slot's noise relative to the gate)"""
    if not mo["controlled"]:
        k = mo["kind"]["S"]
        if not mo["sim"] or k == "No":
            return {"gate": True, "slots": {}}
        if k == "Repl":
            return {"repl": True}
        return {"gate": True, "slots": {"S": mo["after"]["S"]}}
    kc, kt = mo["kind"]["C"], mo["kind"]["T"]
    if not mo["sim"] or (kc == "No" and kt == "No"):
        return {"gate": True, "slots": {}}
    if "Repl" in (kc, kt):
        return "raise-or-repl"
    return {"gate": True, "slots": {s: mo["after"][s] for s in ("C", "T") if mo["kind"][s] == "Add"}}


def _normalise(trace, mo):
    """position of each original noise object relative to the gate: slot -> list of 'before'/'after'"""
    g = [i for i, e in enumerate(trace) if e[0] == "G"]
    out = {"gates": len(g), "repl": sum(1 for e in trace if e[0] == "R"), "slots": {}}
    for i, e in enumerate(trace):
        if e[0] == "N":
            syms = e[1] if isinstance(e[1], tuple) else (e[1],)
            for s in syms:
                if s in ("C", "T", "S") and mo["kind"].get(s) == "Add":
                    out["slots"].setdefault(s, []).append("after" if (g and i > g[0]) else "before")
    return out


def rule_noise_placement(ctx: Ctx) -> None:
    repo = ctx.repo
    m = repo.module(BASE)
    fn = repo.anchor(BASE, "CompilerBase.compile")
    ctx.touch(m, fn)
    loops = [l for l in fn.body if isinstance(l, ast.For) and any(call_attr(c) == "compile_one_gate" for c in calls_in(l))]
    if len(loops) != 1 or not isinstance(loops[0].target, ast.Name):
        raise AnalysisError("compile(): the loop over the operation sequence was not found")
    lp = loops[0]
    opn = lp.target.id
    problems: Dict[str, ast.AST] = {}
    n = 0
    for mo in _models():
        it = _Interp(mo, opn)
        raised = False
        try:
            it.run(lp.body)
        except _Raise:
            raised = True
        except _Unmodelled as e:
            raise AnalysisError(f"compile(): noise placement uses a construct the placement model does not cover: {e}")
        n += 1
        exp = _expected(mo)
        desc = (f"noise simulation {'on' if mo['sim'] else 'off'}, " + (f"{mo['controlled']}-controlled gate, control noise {mo['kind']['C']}/{'after' if mo['after']['C'] else 'before'}, "
                f"target noise {mo['kind']['T']}/{'after' if mo['after']['T'] else 'before'}" if mo["controlled"] else
                f"one-qubit gate, noise {mo['kind']['S']}/{'after' if mo['after']['S'] else 'before'}"))
        got = _normalise(it.trace, mo)
        why = None
        if exp == "raise-or-repl":
            if not raised and got["repl"] != 1:
                why = "a replacement noise on one wire of a controlled gate is neither refused nor applied as a replacement"
        elif raised:
            why = "the combination is refused (raise) although it is supported"
        elif "repl" in exp:
            if got["repl"] != 1 or got["gates"] != 0:
                why = f"a replacement noise must run compile_one_noisy_gate once instead of the gate (trace {it.trace})"
        else:
            if got["gates"] != 1 or got["repl"] != 0:
                why = f"the gate itself must be compiled exactly once (trace {it.trace})"
            else:
                for s, after in exp["slots"].items():
                    pos = got["slots"].get(s, [])
                    want = "after" if after else "before"
                    if pos != [want]:
                        who = {"C": "control", "T": "target", "S": "gate"}[s]
                        why = f"the {who} noise must be applied once, {want} the gate; it is applied {pos or 'never'}"
                        break
                if why is None and not exp["slots"] and any(got["slots"].values()):
                    why = f"noise is applied although none is to be simulated (trace {it.trace})"
            if why is None:
                orig = ["C", "T"] if mo["controlled"] else "S"
                if it.noise != orig:
                    why = f"op.noise is left as {it.noise} instead of the operation's own noise"
        if why:
            problems.setdefault(why, (desc, lp))
    if problems:
        for why, (desc, node) in list(problems.items())[:4]:
            ctx.fail("noise.placement", m, node, f"compile(): for {desc}: {why}", func="CompilerBase.compile", construct=f"compile: placement: {why[:70]}")
    else:
        ctx.ok("noise.placement", m, lp, what=f"{n} points of the placement model (simulation flag x gate kind x noise kinds x after flags) give the prescribed hook order")
