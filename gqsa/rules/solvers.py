"""Rules over the solver modules (DESIGN §3 C5, C6, D3, D4, F2, F6, move.filters)."""
from __future__ import annotations

import ast
from typing import Dict, List, Optional, Set, Tuple

from .. import flow
from ..core import (AnalysisError, Module, Repo, call_attr, call_name, calls_in, dotted, func_params, get_kw, norm, parent,
                    qualname, short)
from ..report import Ctx

SB = "graphiq/solvers/solver_base.py"
EVO = "graphiq/solvers/evolutionary_solver.py"
HYB = "graphiq/solvers/hybrid_solvers.py"
TRS = "graphiq/solvers/time_reversed_solver.py"
ATS = "graphiq/solvers/alternate_target_solver.py"
DAG = "graphiq/circuit/circuit_dag.py"
RANDOM_MODULES = [SB, EVO, HYB]


def _anc(n):
    p = parent(n)
    while p is not None:
        yield p
        p = parent(p)


def _fn_of(n) -> str:
    for a in _anc(n):
        if isinstance(a, (ast.FunctionDef, ast.AsyncFunctionDef)):
            return qualname(a)
    return "<module>"


# --------------------------------------------------------------------------- C6 own.rng

FORBIDDEN_RNG = {"SystemRandom", "urandom", "uuid1", "uuid4", "token_bytes", "token_hex", "randbits", "getrandbits",
                 "time_ns", "perf_counter", "monotonic"}


def rule_rng(ctx: Ctx) -> None:
    repo = ctx.repo
    # 1. SolverBase.seed seeds both global generators with its argument
    m = repo.module(SB)
    seed = repo.anchor(SB, "SolverBase.seed")
    ctx.touch(m, seed)
    sp = func_params(seed)[0]
    for gen in ("np.random.seed", "random.seed"):
        hit = [c for c in calls_in(seed) if call_name(c) == gen and c.args and norm(c.args[0]) == sp]
        if hit:
            ctx.ok("own.rng", m, hit[0], what=f"seed() seeds {gen.rsplit('.', 1)[0]}")
        else:
            ctx.fail("own.rng", m, seed, f"SolverBase.seed does not call {gen}({sp}); the solvers draw from that generator",
                     func="SolverBase.seed", construct=f"seed: {gen} not seeded")
    # 2. every source of randomness in the random-search modules is one of the two seeded global generators
    n = 0
    for rel in RANDOM_MODULES:
        m = repo.module(rel)
        for c in [x for x in ast.walk(m.tree) if isinstance(x, ast.Call)]:
            d = call_name(c) or ""
            a = call_attr(c)
            if d.startswith("np.random.") or d.startswith("numpy.random.") or d.startswith("random."):
                n += 1
                if a in ("default_rng", "RandomState", "Generator", "SeedSequence", "Random"):
                    seeded = bool(c.args or c.keywords) and not any(isinstance(x, ast.Constant) and x.value is None for x in c.args)
                    ctx.fail("own.rng", m, c,
                             f"`{short(c)}` creates a private generator that SolverBase.seed() does not control"
                             + ("" if seeded else " (and it is seeded from OS entropy)") + ": results are not reproducible from the solver seed",
                             func=_fn_of(c))
                elif a in FORBIDDEN_RNG:
                    ctx.fail("own.rng", m, c, f"`{short(c)}` draws OS / time entropy", func=_fn_of(c))
                else:
                    ctx.ok("own.rng", m, c)
            elif a in FORBIDDEN_RNG or d.startswith(("os.urandom", "uuid.", "secrets.", "time.time")):
                n += 1
                ctx.fail("own.rng", m, c, f"`{short(c)}` introduces entropy outside the seeded generators", func=_fn_of(c))
            elif isinstance(c.func, ast.Name) and c.func.id in ("hash", "id") and any(
                    isinstance(a2, (ast.Subscript, ast.Compare)) or (isinstance(a2, ast.Call) and "choice" in norm(a2)) for a2 in _anc(c)):
                n += 1
                ctx.fail("own.rng", m, c, f"`{short(c)}` feeds a per-process value (hash/id) into a choice", func=_fn_of(c))
    if n == 0:
        raise AnalysisError("own.rng: no randomness source found in the solver modules")


# --------------------------------------------------------------------------- F6 order.sethash


def _set_typed_names(fn: ast.AST, set_funcs: Set[str]) -> Set[str]:
    names: Set[str] = set()
    changed = True
    while changed:
        changed = False
        for n in ast.walk(fn):
            if isinstance(n, ast.Assign) and len(n.targets) == 1 and isinstance(n.targets[0], ast.Name) \
                    and n.targets[0].id not in names and is_set_expr(n.value, names, set_funcs):
                names.add(n.targets[0].id)
                changed = True
    return names


def is_set_expr(e: ast.AST, set_names: Set[str], set_funcs: Set[str]) -> bool:
    if isinstance(e, (ast.Set, ast.SetComp)):
        return True
    if isinstance(e, ast.Name):
        return e.id in set_names
    if isinstance(e, ast.Call):
        a = call_attr(e)
        if isinstance(e.func, ast.Name) and e.func.id in ("set", "frozenset"):
            return True
        if a in set_funcs:
            return True
        if a in ("union", "intersection", "difference", "symmetric_difference") and isinstance(e.func, ast.Attribute):
            return is_set_expr(e.func.value, set_names, set_funcs) or (dotted(e.func.value) == "set")
    if isinstance(e, ast.BinOp) and isinstance(e.op, (ast.Sub, ast.BitAnd, ast.BitOr, ast.BitXor)):
        return is_set_expr(e.left, set_names, set_funcs) or is_set_expr(e.right, set_names, set_funcs)
    return False


def set_returning_functions(repo: Repo) -> Set[str]:
    """Names of package functions all of whose returns are set-typed expressions."""
    out: Set[str] = set()
    for m in repo.modules.values():
        for f in m.functions():
            rets = [r for r in ast.walk(f) if isinstance(r, ast.Return) and r.value is not None]
            if rets and all(is_set_expr(r.value, _set_typed_names(f, set()), set()) for r in rets):
                out.add(f.name)
    return out


def rule_sethash(ctx: Ctx, rels: List[str]) -> None:
    """order.sethash: no iteration over a set (whose elements may contain str: edge triples, node ids) that is not
    re-ordered by sorted() — list order would depend on PYTHONHASHSEED and is then indexed by a seeded random integer."""
    repo = ctx.repo
    set_funcs = set_returning_functions(repo)
    n = 0
    for rel in rels:
        m = repo.module(rel)
        for fn in m.functions():
            names = _set_typed_names(fn, set_funcs)
            for node in ast.walk(fn):
                its: List[ast.AST] = []
                if isinstance(node, ast.For):
                    its.append(node.iter)
                elif isinstance(node, (ast.ListComp, ast.GeneratorExp, ast.DictComp)):
                    its += [g.iter for g in node.generators]
                elif isinstance(node, ast.Call) and isinstance(node.func, ast.Name) and node.func.id in ("list", "tuple", "enumerate") and node.args:
                    its.append(node.args[0])
                # order-sensitive consumers: a keyed min/max/sorted breaks ties by iteration order; next(iter(s)) / s.pop() take "the first"
                if isinstance(node, ast.Call) and isinstance(node.func, ast.Name) and node.func.id in ("min", "max", "sorted") and node.args and get_kw(node, "key") is not None:
                    its.append(node.args[0])
                elif isinstance(node, ast.Call) and isinstance(node.func, ast.Name) and node.func.id == "iter" and node.args:
                    its.append(node.args[0])
                elif isinstance(node, ast.Call) and call_attr(node) == "pop" and not node.args and isinstance(node.func.value, ast.Name) and node.func.value.id in names:
                    its.append(node.func.value)
                for it in its:
                    if is_set_expr(it, names, set_funcs):
                        n += 1
                        ctx.touch(m, fn)
                        ctx.fail("order.sethash", m, node,
                                 f"{qualname(fn)} iterates the set `{short(it, 80)}` into an ordered result; its elements hash by "
                                 f"strings (edge triples / node ids: PYTHONHASHSEED) or by object address (circuits), so the order, and "
                                 f"with it which element a seeded index / a keyed min on a tie picks, is not fixed by the solver seed",
                                 func=qualname(fn), construct=f"{qualname(fn)}: iterates set {short(it, 80)}")
            # count order-preserving selections as discharged obligations
            for node in ast.walk(fn):
                if isinstance(node, (ast.ListComp,)) and any(isinstance(c, ast.Compare) and isinstance(c.ops[0], ast.NotIn) for i in node.generators for c in i.ifs if isinstance(c, ast.Compare)):
                    n += 1
                    ctx.ok("order.sethash", m, node, what="order-preserving filter")
    for rel in rels:
        m = repo.module(rel)
        for fn in m.functions():
            for node in ast.walk(fn):
                if isinstance(node, ast.For) and not is_set_expr(node.iter, _set_typed_names(fn, set_funcs), set_funcs):
                    n += 1
                    ctx.ok("order.sethash", m, node.iter)
    if n == 0:
        raise AnalysisError("order.sethash: nothing analysed")


# --------------------------------------------------------------------------- effect.shared-default


def rule_shared_default(ctx: Ctx) -> None:
    """effect.shared-default: the solvers take their settings object from a default argument that is an *instance* created once, when the
    class body is executed (`solver_setting=EvolutionarySolverSetting()`), so every solver built without explicit settings shares it.
    A solver may read it; writing to it (setattr / attribute store on the parameter or on the attribute it was stored under) reconfigures
    every later default-configured solver — the same class, arguments and seed then give a different run."""
    repo = ctx.repo
    n = 0
    for rel in (SB, EVO, HYB):
        m = repo.module(rel)
        for ci in [c for lst in repo.classes.values() for c in lst if c.module.rel == rel]:
            init = ci.methods().get("__init__")
            if init is None:
                continue
            ps = init.args.args
            defaults = dict(zip([a.arg for a in ps][len(ps) - len(init.args.defaults):], init.args.defaults))
            shared = {p_ for p_, d in defaults.items() if isinstance(d, ast.Call)}
            if not shared:
                continue
            n += 1
            ctx.touch(m, init)
            # names / attributes the shared object is reachable under inside the class
            holders = set(shared)
            for a in ast.walk(init):
                if isinstance(a, ast.Assign) and isinstance(a.value, ast.Name) and a.value.id in shared:
                    for t in a.targets:
                        holders.add(norm(t))
            bad = None
            for fn in ci.methods().values():
                for x in ast.walk(fn):
                    if isinstance(x, ast.Call) and isinstance(x.func, ast.Name) and x.func.id == "setattr" and x.args and norm(x.args[0]) in holders:
                        bad = (fn, x)
                    elif isinstance(x, (ast.Assign, ast.AugAssign)):
                        for t in (x.targets if isinstance(x, ast.Assign) else [x.target]):
                            if isinstance(t, ast.Attribute) and norm(t.value) in holders and fn is init:
                                bad = (fn, x)
                    if bad:
                        break
                if bad:
                    break
            if bad:
                fn, x = bad
                ctx.fail("effect.shared-default", m, x,
                         f"{ci.name}.{fn.name} writes to the settings object (`{short(x, 70)}`), which is the single default instance of "
                         f"`{sorted(shared)[0]}=...()` whenever the caller passed none: one solver built this way reconfigures every later solver that "
                         f"relies on the defaults, so a fixed seed no longer reproduces a run", func=f"{ci.name}.{fn.name}",
                         construct=f"{ci.name}: writes to the shared default settings instance")
            else:
                ctx.ok("effect.shared-default", m, init, what=f"{ci.name}: default settings instance {sorted(shared)} only read")
    if n == 0:
        raise AnalysisError("effect.shared-default: no constructor with an instance default found")


# --------------------------------------------------------------------------- D3 effect.hof-copy


def parent_loop(node):
    q = parent(node)
    while q is not None and not isinstance(q, (ast.For, ast.While, ast.FunctionDef)):
        q = parent(q)
    return q


def _is_copy(e: ast.AST) -> bool:
    return isinstance(e, ast.Call) and call_attr(e) in ("copy", "deepcopy")


def rule_hof_copy(ctx: Ctx) -> None:
    repo = ctx.repo
    m = repo.module(SB)
    fn = repo.anchor(SB, "RandomSearchSolver.update_hof")
    ctx.touch(m, fn)
    ins = [c for c in calls_in(fn) if call_name(c) == "self.hof.insert"]
    if not ins:
        raise AnalysisError("update_hof: no self.hof.insert call")
    for c in ins:
        t = c.args[1] if len(c.args) > 1 else None
        from .shapes import _block_value
        stored = _block_value(c, t.elts[1]) if isinstance(t, ast.Tuple) and len(t.elts) == 2 else None
        if stored is not None and _is_copy(stored):
            ctx.ok("effect.hof-copy", m, c)
        elif isinstance(stored, ast.IfExp) and (_is_copy(stored.body) != _is_copy(stored.orelse)):
            ctx.fail("effect.hof-copy", m, c,
                     f"`{short(c)}` stores `{short(stored, 60)}`: under `{short(stored.test)}` being {'false' if _is_copy(stored.body) else 'true'} the hall of fame holds the "
                     f"population's own circuit object; whether the population is rebuilt from copies afterwards is decided elsewhere (tournament selection returns the "
                     f"population itself for k = 0), and a circuit mutated in place in a later generation no longer matches its stored score",
                     func="RandomSearchSolver.update_hof", construct="update_hof: circuit copied only conditionally")
        else:
            ctx.fail("effect.hof-copy", m, c,
                     f"`{short(c)}` stores the population's own circuit object in the hall of fame; the population is mutated in place "
                     f"in later generations, so the stored score no longer matches the stored circuit",
                     func="RandomSearchSolver.update_hof")
        # insert; pop; break in the same block keeps the hall of fame at its size and inserts each circuit at most once
        blk = None
        st = parent(c)
        while st is not None and not isinstance(st, ast.stmt):
            st = parent(st)
        body = getattr(parent(st), "body", [])
        txt = [norm(s) for s in body]
        i = body.index(st) if st in body else -1
        if i >= 0 and len(body) >= i + 3 and txt[i + 1] == "self.hof.pop()" and isinstance(body[i + 2], ast.Break):
            ctx.ok("effect.hof-copy", m, st, what="insert; pop; break")
        else:
            ctx.fail("effect.hof-copy", m, st, "a hall-of-fame insertion is not followed by `self.hof.pop()` and `break`: the list "
                                               "changes size or one circuit is inserted more than once",
                     func="RandomSearchSolver.update_hof", construct="update_hof: insert not followed by pop; break")
    fn = repo.anchor(SB, "RandomSearchSolver.tournament_selection")
    ctx.touch(m, fn)
    # the list that is returned (whatever it is called) holds one *separately made* copy per selected member: a member may win several
    # tournaments, and copy.deepcopy of the whole list keeps repeated elements shared (its memo maps one object to one copy)
    pop_param = func_params(fn)[1]
    n_ret = 0
    for r in [x for x in ast.walk(fn) if isinstance(x, ast.Return) and x.value is not None]:
        v = r.value
        whole_copy = None
        if _is_copy(v) and v.args and isinstance(v.args[0], ast.Name):
            whole_copy, v = r.value, v.args[0]
        if not isinstance(v, ast.Name) or v.id == pop_param:
            continue
        n_ret += 1
        apps = [c for c in calls_in(fn) if call_attr(c) == "append" and norm(c.func.value) == v.id and c.args]
        if not apps:
            raise AnalysisError(f"tournament_selection: how `{v.id}` is filled was not recognised")
        from ..core import deref as _deref
        for c in apps:
            if _is_copy(_deref(fn, c.args[0])) and isinstance(parent_loop(c), (ast.For, ast.While)) and (not isinstance(c.args[0], ast.Name) or any(
                    isinstance(a, ast.Assign) and any(isinstance(t, ast.Name) and t.id == c.args[0].id for t in a.targets) for a in ast.walk(parent_loop(c)))):
                ctx.ok("effect.hof-copy", m, c)      # the copy is made inside the per-member loop (directly or under a name bound there)
            elif _is_copy(c.args[0]):
                ctx.ok("effect.hof-copy", m, c)
            elif whole_copy is not None:
                ctx.fail("effect.hof-copy", m, whole_copy,
                         f"tournament_selection collects the winners uncopied (`{short(c)}`) and returns `{short(whole_copy)}`: deepcopy maps one object to one "
                         f"copy, so a member that won two tournaments comes back as *one* shared (score, circuit) pair; the next generation mutates it twice "
                         f"in place and the earlier slot keeps a score that no longer belongs to its circuit", func="RandomSearchSolver.tournament_selection",
                         construct="tournament_selection: one deepcopy of the whole winners list")
            else:
                ctx.fail("effect.hof-copy", m, c, f"`{short(c)}`: the next population shares circuit objects with the previous one (a circuit "
                                                  f"selected twice would be mutated twice in place)", func="RandomSearchSolver.tournament_selection")
    if n_ret == 0:
        raise AnalysisError("tournament_selection: no returned new population found")
    # a population seeded from the user's circuit holds copies
    em = repo.module(EVO)
    fn = repo.anchor(EVO, "EvolutionarySolver.population_initialization")
    ctx.touch(em, fn)
    _population_members_fresh(ctx, em, fn, "EvolutionarySolver.population_initialization")
    hm0 = repo.module(HYB)
    _population_members_fresh(ctx, hm0, repo.anchor(HYB, "HybridEvolutionarySolver.population_initialization"),
                              "HybridEvolutionarySolver.population_initialization")
    hm = repo.module(HYB)
    fn = repo.anchor(HYB, "HybridEvolutionarySolver.randomize_circuit")
    ctx.touch(hm, fn)
    p = func_params(fn)[1]
    muts = [c for c in calls_in(fn) if isinstance(c.func, ast.Name) and c.args and norm(c.args[0]) == p]
    copies = [n for n in ast.walk(fn) if isinstance(n, ast.Assign) and _is_copy(n.value) and norm(n.value.func.value) == p]
    if copies and not muts:
        ctx.ok("effect.hof-copy", hm, copies[0], what="randomize_circuit works on a copy of the ideal circuit")
    else:
        ctx.fail("effect.hof-copy", hm, fn, "randomize_circuit applies transformations to its input circuit (shared by the whole population)",
                 func="HybridEvolutionarySolver.randomize_circuit", construct="randomize_circuit: mutates input")


def _population_members_fresh(ctx: Ctx, m: Module, fn: ast.FunctionDef, q: str) -> None:
    """Every (score, circuit) appended to a population inside a loop carries a circuit object created *in that iteration*
    (a copy / constructor / factory call evaluated per member): members are mutated in place independently."""
    found = 0
    for c in [c for c in calls_in(fn) if call_attr(c) == "append" and "population" in norm(c.func.value)]:
        t = c.args[0]
        if not (isinstance(t, ast.Tuple) and len(t.elts) == 2):
            continue
        found += 1
        e = t.elts[1]
        loop = next((a for a in _anc(c) if isinstance(a, (ast.For, ast.While))), None)
        if loop is None:
            ctx.fail("effect.hof-copy", m, c, f"`{short(c)}` is not inside the per-member loop", func=q)
            continue
        src = e
        if isinstance(e, ast.Name):
            inner = [n for n in ast.walk(loop) if isinstance(n, ast.Assign) and any(norm(x) == e.id for x in n.targets)]
            src = inner[-1].value if inner else None
        per_member = isinstance(src, ast.Call)
        user = src is not None and "self.circuit" in norm(src) and not _is_copy(src)
        if per_member and not user:
            ctx.ok("effect.hof-copy", m, c, what=f"{q}: member circuit created per iteration ({short(src, 50)})")
        else:
            ctx.fail("effect.hof-copy", m, c,
                     f"{q} appends `{norm(e)}` to the population, which is " + ("the user's own circuit" if user else
                     "one object bound outside the per-member loop") + ": all members (or the caller) share one circuit object that the "
                     f"generation loop mutates in place, so stored scores no longer match stored circuits", func=q,
                     construct=f"{q}: population member {norm(e)} not created per iteration")
    if found == 0:
        raise AnalysisError(f"{q}: no population append found")


# --------------------------------------------------------------------------- D4 effect.result-provenance

CIRC_MUTATORS = {"add", "insert_at", "remove_op", "replace_op", "unwrap_nodes", "remove_identity", "group_one_qubit_gates"}


def rule_result_provenance(ctx: Ctx, rel: str, q: str, loop_required: bool) -> None:
    """The score stored with a circuit is metric.evaluate(compile(<that circuit>), <that circuit>), the circuit is validated
    before and not mutated in between; the reported result is hof[0] (random search) / a copy (deterministic)."""
    repo = ctx.repo
    m = repo.module(rel)
    fn = repo.anchor(rel, q)
    ctx.touch(m, fn)
    ev = [c for c in calls_in(fn) if call_name(c) == "self.metric.evaluate"]
    if len(ev) != 1:
        raise AnalysisError(f"{q}: expected exactly one self.metric.evaluate call")
    ev = ev[0]
    st_ev = ev
    while not isinstance(st_ev, ast.stmt):
        st_ev = parent(st_ev)
    block = parent(st_ev).body
    if len(ev.args) != 2 or not isinstance(st_ev, ast.Assign):
        raise AnalysisError(f"{q}: evaluate call shape not recognised")
    state_v, circ_v = norm(ev.args[0]), norm(ev.args[1])
    score_v = norm(st_ev.targets[0])
    comp = [s for s in block if isinstance(s, ast.Assign) and norm(s.targets[0]) == state_v and isinstance(s.value, ast.Call)
            and call_name(s.value) == "self.compiler.compile"]
    if len(comp) != 1 or norm(comp[0].value.args[0] if comp[0].value.args else get_kw(comp[0].value, "circuit")) != circ_v:
        ctx.fail("effect.result-provenance", m, st_ev,
                 f"the state scored by {q} is not `self.compiler.compile({circ_v})` of the circuit passed to the metric",
                 func=q, construct=f"{q}: scored state is not compile({circ_v})")
        return
    ctx.ok("effect.result-provenance", m, comp[0], what="scored state = compile(circuit)")
    i_c, i_e = block.index(comp[0]), block.index(st_ev)
    # validate() dominates compile
    val = [i for i, s in enumerate(block) if isinstance(s, ast.Expr) and norm(s.value) == f"{circ_v}.validate()"]
    if val and val[-1] < i_c:
        ctx.ok("effect.result-provenance", m, block[val[-1]], what="validate() before compile")
    else:
        ctx.fail("effect.result-provenance", m, comp[0], f"{q} compiles and scores `{circ_v}` without `{circ_v}.validate()` first",
                 func=q, construct=f"{q}: validate() does not dominate compile")
    # no circuit mutation between compile and the store of (score, circuit)
    store = None
    for i in range(i_e + 1, len(block)):
        s = block[i]
        if isinstance(s, ast.Assign) and isinstance(s.value, ast.Tuple) and len(s.value.elts) == 2 and norm(s.value.elts[0]) == score_v:
            store = (i, s)
            break
    if store is None:
        ctx.fail("effect.result-provenance", m, st_ev, f"{q}: the evaluated score is not stored together with its circuit",
                 func=q, construct=f"{q}: (score, circuit) store missing")
        return
    i_s, s = store
    stored_c = s.value.elts[1]
    base = stored_c.func.value if _is_copy(stored_c) and isinstance(stored_c.func, ast.Attribute) else stored_c
    if norm(base) == circ_v:
        ctx.ok("effect.result-provenance", m, s, what="score stored with the circuit it was computed from")
    else:
        ctx.fail("effect.result-provenance", m, s, f"`{short(s)}` pairs the score of `{circ_v}` with a different circuit `{norm(base)}`",
                 func=q)
    for j in range(i_c + 1, i_s):
        for c in calls_in(block[j]):
            if call_attr(c) in CIRC_MUTATORS and isinstance(c.func, ast.Attribute) and norm(c.func.value) == circ_v:
                ctx.fail("effect.result-provenance", m, c, f"`{short(c)}` changes the circuit after it was compiled and before its score is "
                                                           f"stored", func=q)
            if isinstance(c.func, ast.Name) and c.func.id == "transformation" and c.args and norm(c.args[0]) == circ_v:
                ctx.fail("effect.result-provenance", m, c, "a mutation move is applied after the circuit was compiled", func=q)
    # reported result
    res = [n for n in ast.walk(fn) if isinstance(n, ast.Assign) and norm(n.targets[0]) == "self.result"]
    if not res:
        ctx.fail("effect.result-provenance", m, fn, f"{q} never sets self.result", func=q, construct=f"{q}: no result")
        return
    r = res[-1]
    if loop_required:
        # the result must be current when solve() returns: refreshed unconditionally after the last hall-of-fame update
        # (update_hof also replaces hof[0] on a score tie with a shorter circuit, so "only on strict improvement" goes stale)
        chain_, cur = [], None
        def _path(node, acc):
            for ch in ast.iter_child_nodes(node):
                if ch is r:
                    return acc + [node]
                got = _path(ch, acc + [node])
                if got:
                    return got
            return None
        chain_ = _path(fn, []) or []
        guard = next((a for a in chain_ if isinstance(a, (ast.If, ast.Try, ast.While, ast.IfExp))), None)
        upd = [c for c in calls_in(fn) if call_attr(c) == "update_hof"]
        late = [c for c in upd if (c.lineno, c.col_offset) > (r.lineno, r.col_offset) and not any(isinstance(a, (ast.For, ast.While)) for a in chain_)]
        in_loop = next((a for a in chain_ if isinstance(a, ast.For)), None)
        if in_loop is not None:
            late = [c for c in upd if any(c is x for x in ast.walk(in_loop)) and (c.lineno, c.col_offset) > (r.lineno, r.col_offset)]
        if guard is not None:
            ctx.fail("effect.result-provenance", m, r, f"the reported result is refreshed only under `{short(guard.test) if hasattr(guard, 'test') else 'try'}`: "
                     "update_hof can replace hof[0] (score tie, shorter circuit) without that condition holding, leaving a stale result",
                     func=q, construct=f"{q}: result assigned conditionally")
        elif late:
            ctx.fail("effect.result-provenance", m, r, f"`{short(late[0])}` runs after the reported result was taken from the hall of fame",
                     func=q, construct=f"{q}: result before update_hof")
        if norm(r.value) in ("(self.hof[0][0], self.hof[0][1])", "self.hof[0]"):
            ctx.ok("effect.result-provenance", m, r, what="result = best hall-of-fame entry")
        else:
            ctx.fail("effect.result-provenance", m, r, f"the reported result `{short(r.value)}` is not the first (best) hall-of-fame entry",
                     func=q, construct=f"{q}: result {short(r.value, 60)}")
    else:
        if r is s or norm(r.value) == norm(s.value):
            ctx.ok("effect.result-provenance", m, r, what="result = (score, copy of the scored circuit)")
        else:
            ctx.fail("effect.result-provenance", m, r, f"the reported result `{short(r.value)}` is not the evaluated (score, circuit)",
                     func=q)


# --------------------------------------------------------------------------- C5 own.twoqubit / typestate.fixed

TWO_QUBIT_CTORS = {"CNOT", "CZ", "MeasurementCNOTandReset", "ClassicalCNOT", "ClassicalCZ", "ParameterizedControlledRotationQubit"}


def _labelled_before_insertion(m, fn, stmts, v: str, depth: int, labelled: bool = False) -> str:
    """'ok' | 'unlabelled' | 'none': walk the statements in order; `v.add_labels('Fixed')` sets the flag, `<circuit>.add(v)` /
    `.insert_at(v, ...)` ends the walk.  A call that hands `v` to a helper of the same class / module continues inside the helper
    (with the helper's parameter name), so a refactoring that moves the edge lookup and the insertion into a helper is followed."""
    for s2 in stmts:
        t2 = norm(s2)
        if t2.startswith(f"{v}.add_labels(") and "'Fixed'" in t2:
            labelled = True
            continue
        if not (isinstance(s2, ast.Expr) and isinstance(s2.value, ast.Call)):
            continue
        c2 = s2.value
        if call_attr(c2) in ("add", "insert_at") and c2.args and norm(c2.args[0]) == v:
            return "ok" if labelled else "unlabelled"
        pos = [k for k, a in enumerate(c2.args) if norm(a) == v]
        kw = [k.arg for k in c2.keywords if norm(k.value) == v]
        if (pos or kw) and depth < 3:
            helper = None
            if isinstance(c2.func, ast.Attribute) and norm(c2.func.value) == "self":
                cls_ = parent(fn)
                if isinstance(cls_, ast.ClassDef):
                    helper = next((f for f in cls_.body if isinstance(f, ast.FunctionDef) and f.name == c2.func.attr), None)
                off = 1
            elif isinstance(c2.func, ast.Name):
                helper = m.find(c2.func.id)
                off = 0
            if isinstance(helper, ast.FunctionDef):
                ps = func_params(helper)
                pv = kw[0] if kw else (ps[pos[0] + off] if pos[0] + off < len(ps) else None)
                if pv is not None:
                    r = _labelled_before_insertion(m, helper, helper.body, pv, depth + 1, labelled)
                    if r != "none":
                        return r
    return "none"


def rule_twoqubit(ctx: Ctx) -> None:
    """own.twoqubit: every two-qubit operation built in graphiq/solvers/ is controlled by an emitter, and a photon target
    is only used by emission CNOTs / measure-and-reset; typestate.fixed: those carry the 'Fixed' label before insertion."""
    repo = ctx.repo
    n = 0
    for rel in (EVO, HYB, TRS, ATS):
        m = repo.module(rel)
        for fn in m.functions():
            for c in calls_in(fn, nested=False):
                d = call_name(c) or ""
                if d.startswith("ops.") and call_attr(c) in TWO_QUBIT_CTORS and (c.keywords or c.args):
                    n += 1
                    ctx.touch(m, fn)
                    ct, tt = get_kw(c, "control_type"), get_kw(c, "target_type")
                    if not (isinstance(ct, ast.Constant) and ct.value == "e"):
                        ctx.fail("own.twoqubit", m, c,
                                 f"{qualname(fn)} builds a two-qubit operation whose control_type is `{short(ct) if ct is not None else 'default'}`; "
                                 f"solvers may only create emitter-controlled two-qubit operations (no photon-photon / photon-controlled gates)",
                                 func=qualname(fn), construct=f"{qualname(fn)}: {call_attr(c)} control_type={short(ct) if ct is not None else 'default'}")
                        continue
                    ctx.ok("own.twoqubit", m, c)
                    if isinstance(tt, ast.Constant) and tt.value == "p":
                        # emission CNOT / measure-and-reset: must be labelled Fixed before it enters the circuit
                        st = c
                        while not isinstance(st, ast.stmt):
                            st = parent(st)
                        if not (isinstance(st, ast.Assign) and isinstance(st.targets[0], ast.Name)):
                            raise AnalysisError(f"{rel}::{qualname(fn)}: emitter-photon operation not bound to a name: {short(st)}")
                        v = st.targets[0].id
                        body = parent(st).body
                        i = body.index(st)
                        ok = _labelled_before_insertion(m, fn, body[i + 1:], v, 0) == "ok"
                        # add_measurement_cnot_and_reset is an optional move: its gate is removable by design
                        if ok:
                            ctx.ok("typestate.fixed", m, st, what=f"{qualname(fn)}: labelled Fixed before insertion")
                        elif qualname(fn) in MOVE_ADDS_REMOVABLE:
                            ctx.ok("typestate.fixed", m, st, what=f"{qualname(fn)}: optional move ({MOVE_ADDS_REMOVABLE[qualname(fn)]})")
                        else:
                            ctx.fail("typestate.fixed", m, st,
                                     f"{qualname(fn)} inserts an emitter->photon `{call_attr(c)}` without labelling it 'Fixed' first; "
                                     f"remove_op only spares operations labelled Fixed, so a later mutation can delete the photon's emission",
                                     func=qualname(fn), construct=f"{qualname(fn)}: {call_attr(c)} e->p not labelled Fixed")
    if n == 0:
        raise AnalysisError("own.twoqubit: no two-qubit constructor found in graphiq/solvers")


# named exception: a mutation *move* that adds a measure-and-reset; the property protects the operations "placed at
# initialisation", which the initialisation sites label
MOVE_ADDS_REMOVABLE = {"EvolutionarySolver.add_measurement_cnot_and_reset": "mid-search measure-and-reset added by a move, not at initialisation"}


# --------------------------------------------------------------------------- own.frontinsert (who may call the time-reversed insertion helpers)


def rule_frontinsert_owner(ctx: Ctx) -> None:
    """own.frontinsert: TimeReversedSolver's private insertion helpers place an operation at the *front* of a wire (right after the register
    input) because that solver builds its circuit backwards in time.  They are called only from inside TimeReversedSolver: used on a
    finished circuit (to "merge" conversion gates, say) they put the gate in front of the photon's emission CNOT, where the photon is
    still |0> — the gate acts on the wrong state and the photon's first operation is no longer its emission."""
    from ..core import enclosing_class
    repo = ctx.repo
    helpers = set(INSERT_HELPERS) | {"_add_gates_from_str"}
    n = 0
    for m in repo.modules.values():
        for fn in m.functions():
            for c in calls_in(fn, nested=False):
                if call_attr(c) in helpers and isinstance(c.func, ast.Attribute):
                    n += 1
                    cls_ = enclosing_class(fn)
                    inside = m.rel == TRS and cls_ is not None and cls_.name == "TimeReversedSolver" and norm(c.func.value) == "self"
                    if inside:
                        continue
                    ctx.touch(m, fn)
                    ctx.fail("own.frontinsert", m, c,
                             f"{qualname(fn)} calls `{short(c, 70)}`: {call_attr(c)} inserts at the front of the wire (the time-reversed solver builds circuits "
                             f"backwards); on a finished circuit the gate lands between the register's input and the photon's emission CNOT, so the photon's "
                             f"first operation is no longer its emission and the gate acts on |0> instead of the generated state",
                             func=qualname(fn), construct=f"{qualname(fn)}: {call_attr(c)} called from outside TimeReversedSolver")
    if n == 0:
        raise AnalysisError("own.frontinsert: no call of the insertion helpers found")
    ctx.ok_abstract("own.frontinsert", f"{n} calls of the time-reversed insertion helpers, all from inside TimeReversedSolver")


# --------------------------------------------------------------------------- move.edge-roles


def rule_edge_roles(ctx: Ctx) -> None:
    """move.edge-roles: a move that builds a two-qubit operation from two chosen edges and splices it in with insert_at(gate, [A, B]) reads
    the operation's control register from edge A and its target register from edge B (`dag.edges[A]["reg"]`, through local names).  The
    node is wired into the registers of the *edges*; registers read from elsewhere give an operation whose own registers disagree with the
    wires it sits on, which validate() and the compilers do not notice."""
    from ..core import deref
    repo = ctx.repo
    n = 0
    for rel in (EVO, HYB):
        m = repo.module(rel)
        for fn in m.functions():
            ins = [c for c in calls_in(fn) if call_attr(c) == "insert_at" and len(c.args) == 2 and isinstance(c.args[1], (ast.List, ast.Tuple)) and len(c.args[1].elts) == 2]
            for c in ins:
                g = deref(fn, c.args[0])
                if not (isinstance(g, ast.Call) and (call_name(g) or "").startswith("ops.") and get_kw(g, "control") is not None and get_kw(g, "target") is not None):
                    continue
                n += 1
                ctx.touch(m, fn)
                A, B = norm(c.args[1].elts[0]), norm(c.args[1].elts[1])

                def edge_of(e):
                    e = deref(fn, e)
                    # <dag>.edges[X]["reg"]
                    if isinstance(e, ast.Subscript) and isinstance(e.slice, ast.Constant) and e.slice.value == "reg" and isinstance(e.value, ast.Subscript) \
                            and norm(e.value.value).endswith(".edges"):
                        return norm(e.value.slice)
                    return None
                ce, te = edge_of(get_kw(g, "control")), edge_of(get_kw(g, "target"))
                if ce is None or te is None:
                    raise AnalysisError(f"{rel}::{qualname(fn)}: the registers of the two-qubit operation are not read from edges")
                if (ce, te) == (A, B):
                    ctx.ok("move.edge-roles", m, c, what=f"{qualname(fn)}: control from the first edge, target from the second")
                else:
                    ctx.fail("move.edge-roles", m, c,
                             f"{qualname(fn)} splices the operation into edges [{A}, {B}] but takes its control register from edge `{ce}` and its target register from edge "
                             f"`{te}`: the node sits on the wires of the chosen edges while the operation names other registers, so a photon can receive its correction "
                             f"on a wire that is not its own (or before it was emitted)", func=qualname(fn), construct=f"{qualname(fn)}: operation registers not taken from its edges")
    # one-qubit moves: insert_at(gate, [E]) with gate = ops.<Gate>(..., register=R): R is the register of edge E
    n1 = 0
    for rel in (EVO, HYB):
        m = repo.module(rel)
        for fn in m.functions():
            for c in [c for c in calls_in(fn) if call_attr(c) == "insert_at" and len(c.args) == 2 and isinstance(c.args[1], (ast.List, ast.Tuple)) and len(c.args[1].elts) == 1]:
                g = deref(fn, c.args[0])
                if not (isinstance(g, ast.Call) and (call_name(g) or "").startswith("ops.") and get_kw(g, "register") is not None):
                    continue
                n1 += 1
                ctx.touch(m, fn)
                A = norm(c.args[1].elts[0])
                r = deref(fn, get_kw(g, "register"))
                src = None
                if isinstance(r, ast.Subscript) and isinstance(r.slice, ast.Constant) and r.slice.value == "reg" and isinstance(r.value, ast.Subscript) \
                        and norm(r.value.value).endswith(".edges"):
                    src = norm(r.value.slice)
                if src == A:
                    ctx.ok("move.edge-roles", m, c, what=f"{qualname(fn)}: the gate's register is the register of the edge it is inserted at")
                elif src is not None or any(k in norm(r) for k in ("q_registers", ".register", "nodes[")) or \
                        any(isinstance(x, ast.Call) and isinstance(x.func, ast.Name) and x.func.id in {d.name for d in ast.walk(fn) if isinstance(d, ast.FunctionDef)} for x in ast.walk(r)):
                    ctx.fail("move.edge-roles", m, c,
                             f"{qualname(fn)} splices a one-qubit gate into edge `{A}` but builds it on register `{short(r)}`: the wire is the edge's own register "
                             f"(`dag.edges[{A}]['reg']`); behind a two-qubit operation the neighbouring operation's first register is the *other* qubit, so the "
                             f"gate names one emitter and sits on another's wire", func=qualname(fn), construct=f"{qualname(fn)}: gate register not taken from its edge")
                else:
                    raise AnalysisError(f"{rel}::{qualname(fn)}: the register of the inserted one-qubit gate (`{short(r)}`) is not read from an edge; not decided")
    if n == 0 or n1 < 2:
        raise AnalysisError("move.edge-roles: no two-qubit insertion built from edges found")


# --------------------------------------------------------------------------- move.filters


def rule_move_filters(ctx: Ctx) -> None:
    repo = ctx.repo
    m = repo.module(EVO)
    # remove_op
    fn = repo.anchor(EVO, "EvolutionarySolver.remove_op")
    ctx.touch(m, fn)
    ex = [c for c in calls_in(fn) if call_attr(c) == "get_node_exclude_labels"]
    if len(ex) == 1 and isinstance(ex[0].args[0], ast.List):
        labs = {e.value for e in ex[0].args[0].elts if isinstance(e, ast.Constant)}
        miss = {"Fixed", "Input", "Output"} - labs
        if miss:
            ctx.fail("move.filters", m, ex[0], f"remove_op may pick nodes labelled {sorted(miss)} (emission CNOTs / register endpoints)",
                     func="EvolutionarySolver.remove_op", construct=f"remove_op: excluded labels lack {sorted(miss)}")
        else:
            ctx.ok("move.filters", m, ex[0], what="remove_op excludes Fixed/Input/Output")
    else:
        ctx.fail("move.filters", m, fn, "remove_op no longer draws its candidates from get_node_exclude_labels([...])",
                 func="EvolutionarySolver.remove_op", construct="remove_op: candidate source")
    # explicit-node path returns when the node is Fixed
    guard = False
    for n in ast.walk(fn):
        if isinstance(n, ast.If) and isinstance(n.test, ast.Compare) and isinstance(n.test.ops[0], ast.In) \
                and len(n.body) == 1 and isinstance(n.body[0], ast.Return):
            src = norm(n.test.comparators[0])
            for a in ast.walk(fn):
                if isinstance(a, ast.Assign) and norm(a.targets[0]) == src and "'Fixed'" in norm(a.value):
                    guard = True
    if guard:
        ctx.ok("move.filters", m, fn, what="explicit node: returns when Fixed")
    else:
        ctx.fail("move.filters", m, fn, "remove_op(node=...) no longer refuses nodes labelled 'Fixed'", func="EvolutionarySolver.remove_op",
                 construct="remove_op: explicit Fixed node not refused")
    # replace_* only replaces wrapper nodes by wrappers on the same register
    for q, kind in (("EvolutionarySolver.replace_photon_one_qubit_op", "Photonic"), ("EvolutionarySolver.replace_emitter_one_qubit_op", "Emitter")):
        fn = repo.anchor(EVO, q)
        ctx.touch(m, fn)
        sel = [c for c in calls_in(fn) if call_attr(c) == "get_node_by_labels"]
        rep = [c for c in calls_in(fn) if call_attr(c) == "replace_op"]
        good = len(sel) == 1 and len(rep) == 1 and isinstance(sel[0].args[0], ast.List) \
            and {e.value for e in sel[0].args[0].elts if isinstance(e, ast.Constant)} == {"OneQubitGateWrapper", kind}
        if good:
            g = norm(rep[0].args[1])
            ctor = [n for n in ast.walk(fn) if isinstance(n, ast.Assign) and norm(n.targets[0]) == g and isinstance(n.value, ast.Call)
                    and call_attr(n.value) == "OneQubitGateWrapper"]
            rt = get_kw(ctor[0].value, "reg_type") if ctor else None
            rg = get_kw(ctor[0].value, "register") if ctor else None
            if isinstance(rg, ast.Name):
                src = [n.value for n in ast.walk(fn) if isinstance(n, ast.Assign) and len(n.targets) == 1 and norm(n.targets[0]) == rg.id]
                rg = src[-1] if src else rg
            # the register of the operation being replaced: <old op>.register
            same_reg = isinstance(rg, ast.Attribute) and rg.attr == "register"
            good = bool(ctor) and isinstance(rt, ast.Constant) and rt.value == kind[0].lower() and same_reg
        if good:
            ctx.ok("move.filters", m, rep[0], what=f"{q}: wrapper -> wrapper on the same register")
        else:
            ctx.fail("move.filters", m, fn, f"{q} must replace a node selected by labels ['OneQubitGateWrapper', '{kind}'] with a "
                                            f"OneQubitGateWrapper on the same {kind.lower()} register", func=q, construct=f"{q}: replacement shape")
    # photon edges feeding insert_at are filtered by the type of the operation at edge[0]
    for q in ("EvolutionarySolver.add_photon_one_qubit_op", "EvolutionarySolver._select_possible_measurement_position"):
        fn = repo.anchor(EVO, q)
        ctx.touch(m, fn)
        comps = [n for n in ast.walk(fn) if isinstance(n, ast.ListComp) and "edge_dict['p']" in norm(n.generators[0].iter)]
        if not comps:
            raise AnalysisError(f"{q}: comprehension over edge_dict['p'] not found")
        for lc in comps:
            conds = " and ".join(norm(i) for i in lc.generators[0].ifs)
            ev = norm(lc.generators[0].target)
            if f"{ev}[0]" in conds and ("is ops.CNOT" in conds or "is not ops.Input" in conds):
                ctx.ok("move.filters", m, lc, what=f"{q}: photon edge filtered by its source operation")
            else:
                ctx.fail("move.filters", m, lc,
                         f"{q} selects photon edges without checking the operation at edge[0]: an operation could be inserted before "
                         f"the photon's emission CNOT", func=q, construct=f"{q}: photon edge filter")
    # emitter moves only use emitter edges
    for q in ("EvolutionarySolver.add_emitter_one_qubit_op", "EvolutionarySolver._select_possible_cnot_position"):
        fn = repo.anchor(EVO, q)
        ctx.touch(m, fn)
        comps = [n for n in ast.walk(fn) if isinstance(n, ast.ListComp) and "edge_dict" in norm(n.generators[0].iter)]
        if comps and all("edge_dict['e']" in norm(c.generators[0].iter) for c in comps):
            ctx.ok("move.filters", m, comps[0], what=f"{q}: emitter edges only")
        else:
            ctx.fail("move.filters", m, fn, f"{q} draws insertion edges from a non-emitter wire", func=q, construct=f"{q}: edge source")
    # every move is followed by validate() before scoring (EvolutionarySolver.solve)
    fn = repo.anchor(EVO, "EvolutionarySolver.solve")
    # the move is a callable drawn with np.random.choice / rng.choice and bound to a local name
    drawn = {n.targets[0].id for n in ast.walk(fn) if isinstance(n, ast.Assign) and len(n.targets) == 1 and isinstance(n.targets[0], ast.Name)
             and isinstance(n.value, ast.Call) and (call_attr(n.value) == "choice")}
    tr = [c for c in calls_in(fn) if isinstance(c.func, ast.Name) and c.func.id in drawn and len(c.args) == 1]
    if len(tr) != 1:
        raise AnalysisError("EvolutionarySolver.solve: transformation(circuit) call not found")
    st = tr[0]
    while not isinstance(st, ast.stmt):
        st = parent(st)
    body = parent(st).body
    i = body.index(st)
    nxt = norm(body[i + 1]) if i + 1 < len(body) else ""
    if nxt == f"{norm(tr[0].args[0])}.validate()":
        ctx.ok("move.filters", m, body[i + 1], what="move; validate()")
    else:
        ctx.fail("move.filters", m, st, "a mutation move is not immediately followed by circuit.validate()", func="EvolutionarySolver.solve",
                 construct="solve: move not followed by validate()")


# --------------------------------------------------------------------------- F2 order.frontinsert

INSERT_HELPERS = ["_add_one_qubit_gate", "_add_one_emitter_cnot", "_add_emitter_photon_cnot", "_add_measurement_cnot_and_reset"]


def rule_frontinsert(ctx: Ctx) -> None:
    """Every insertion helper of TimeReversedSolver inserts on the out-edge of `<reg>_in` (front of the wire), and the
    emission CNOT is the last inserting call on its photon, hence the first operation on the photon's wire."""
    repo = ctx.repo
    m = repo.module(TRS)
    for h in INSERT_HELPERS:
        fn = repo.anchor(TRS, f"TimeReversedSolver.{h}")
        ctx.touch(m, fn)
        if not any(call_attr(c) == "insert_at" for c in calls_in(fn)):
            # the edge lookup and the insertion may live in a shared helper of the class: judge the helper's body
            cls_ = parent(fn)
            for c in calls_in(fn):
                if isinstance(c.func, ast.Attribute) and norm(c.func.value) == "self" and isinstance(cls_, ast.ClassDef):
                    hf = next((f for f in cls_.body if isinstance(f, ast.FunctionDef) and f.name == c.func.attr), None)
                    if hf is not None and any(call_attr(c2) == "insert_at" for c2 in calls_in(hf)):
                        fn = hf
                        ctx.touch(m, fn)
                        break
        edge_vars: Dict[str, bool] = {}
        for n in ast.walk(fn):
            if isinstance(n, ast.Assign) and isinstance(n.value, ast.Call) and call_attr(n.value) == "out_edges":
                nb = get_kw(n.value, "nbunch") or (n.value.args[0] if n.value.args else None)
                front = isinstance(nb, ast.JoinedStr) and norm(nb).rstrip("'\"").endswith("_in")
                edge_vars[norm(n.targets[0])] = front
        # propagate through `x = list(y)[0]`
        changed = True
        while changed:
            changed = False
            for n in ast.walk(fn):
                if isinstance(n, ast.Assign) and isinstance(n.value, ast.Subscript) and norm(n.value.slice) == "0":
                    inner = n.value.value
                    if isinstance(inner, ast.Call) and isinstance(inner.func, ast.Name) and inner.func.id == "list" \
                            and norm(inner.args[0]) in edge_vars and norm(n.targets[0]) not in edge_vars | {}:
                        edge_vars[norm(n.targets[0])] = edge_vars[norm(inner.args[0])]
                        changed = True
                    elif isinstance(inner, ast.Call) and isinstance(inner.func, ast.Name) and inner.func.id == "list" \
                            and norm(inner.args[0]) in edge_vars and edge_vars.get(norm(n.targets[0])) != edge_vars[norm(inner.args[0])]:
                        edge_vars[norm(n.targets[0])] = edge_vars[norm(inner.args[0])]
                        changed = True
        ins = [c for c in calls_in(fn) if call_attr(c) == "insert_at"]
        if not ins:
            raise AnalysisError(f"TimeReversedSolver.{h}: no insert_at call")
        for c in ins:
            es = c.args[1].elts if isinstance(c.args[1], (ast.List, ast.Tuple)) else []
            if es and all(edge_vars.get(norm(e)) for e in es):
                ctx.ok("order.frontinsert", m, c, what=f"{h}: inserts right after the register input")
            else:
                ctx.fail("order.frontinsert", m, c,
                         f"{h} inserts at `{short(c.args[1])}`, which is not the out-edge of the register's input node; the "
                         f"time-reversed construction requires every new operation at the front of its wire", func=f"TimeReversedSolver.{h}")
    # within _add_photon_absorption the emission helper is the last inserting call on photon_index
    fn = repo.anchor(TRS, "TimeReversedSolver._add_photon_absorption")
    ctx.touch(m, fn)
    ph = func_params(fn)[3]
    seq = []
    for st in fn.body:
        for c in calls_in(st):
            if (call_name(c) or "").startswith("self._add_") or call_name(c) in ("self._transform_generator_emitters", "self._single_out_emitter"):
                seq.append((call_attr(c), [norm(a) for a in c.args]))
    on_photon = [i for i, (a, args) in enumerate(seq) if ph in args]
    if on_photon and seq[on_photon[-1]][0] == "_add_emitter_photon_cnot" and sum(1 for a, _ in seq if a == "_add_emitter_photon_cnot") == 1:
        ctx.ok("order.frontinsert", m, fn, what="emission CNOT is the last insertion on the photon inside _add_photon_absorption")
    else:
        ctx.fail("order.frontinsert", m, fn,
                 "inside _add_photon_absorption the emission CNOT is not the last inserting call on the photon: another operation would "
                 "precede the photon's emission", func="TimeReversedSolver._add_photon_absorption",
                 construct="_add_photon_absorption: emission not last on photon")
    # and in solve()'s main loop _add_photon_absorption(.., j-1) is the last inserting call on that photon
    sv = repo.anchor(TRS, "TimeReversedSolver.solve")
    loops = [n for n in ast.walk(sv) if isinstance(n, ast.For) and any(call_attr(c) == "_add_photon_absorption" for c in calls_in(n))]
    if len(loops) != 1:
        raise AnalysisError("solve(): main loop not found")
    last = None
    for st in loops[0].body:
        for c in calls_in(st):
            if (call_name(c) or "").startswith("self._add_") or call_name(c) == "self._time_reversed_measurement":
                last = c
    if last is not None and call_attr(last) == "_add_photon_absorption" and isinstance(loops[0].body[-1], ast.Expr) \
            and loops[0].body[-1].value is last:
        ctx.ok("order.frontinsert", m, last, what="absorption is the last insertion of the iteration")
    else:
        ctx.fail("order.frontinsert", m, loops[0], "in the main loop an inserting call follows _add_photon_absorption for the same photon",
                 func="TimeReversedSolver.solve", construct="solve: absorption not last in iteration")
    # later insertions (_add_gates_from_str) are dominated by the asserts that the photonic block is |0..0>
    body = sv.body
    idx_assert = [i for i, s in enumerate(body) if isinstance(s, ast.Assert) and "n_photon" in norm(s.test)]
    idx_gs = [i for i, s in enumerate(body) if any(call_attr(c) == "_add_gates_from_str" for c in calls_in(s))]
    if len(idx_assert) >= 2 and idx_gs and max(idx_assert) < idx_gs[0]:
        ctx.ok("order.frontinsert", m, body[idx_gs[0]], what="photonic-block asserts dominate _add_gates_from_str")
        ctx.assume("indices in inverse_circuit's gate list are >= n_photon once the two asserts on the photonic block hold "
                   "(runtime list; recorded as an assumption, not decided statically)")
    else:
        ctx.fail("order.frontinsert", m, sv, "the asserts that the photonic block is already |0..0> no longer dominate _add_gates_from_str; "
                                             "its gates could land in front of a photon's emission", func="TimeReversedSolver.solve",
                 construct="solve: asserts do not dominate _add_gates_from_str")


# --------------------------------------------------------------------------- own.hof (who may write the hall of fame)


def rule_own_hof(ctx: Ctx) -> None:
    """own.hof: the hall of fame is written only where it is (re)initialised with (inf, None) placeholders and in
    RandomSearchSolver.update_hof, which inserts (score, circuit.copy()) at the score-ordered position for a score the caller just
    computed for that circuit.  A store from anywhere else (`self.hof[0] = ...`, `self.hof.append(...)`, `self.hof = ...` in a
    subclass) bypasses the ordering and can pair a circuit with a score that was not computed for it under this solver's metric and
    noise setting."""
    import glob, os
    repo = ctx.repo
    n = 0
    rels = sorted(os.path.relpath(p_, repo.root) for p_ in glob.glob(os.path.join(repo.root, "graphiq", "solvers", "*.py")))
    for rel in rels:
        m = repo.module(rel)
        for fn in [f for f in ast.walk(m.tree) if isinstance(f, ast.FunctionDef)]:
            q = qualname(fn)
            for node in ast.walk(fn):
                store = None
                if isinstance(node, (ast.Assign, ast.AugAssign)):
                    tg = node.targets if isinstance(node, ast.Assign) else [node.target]
                    for t in tg:
                        b = t
                        while isinstance(b, ast.Subscript):
                            b = b.value
                        if isinstance(b, ast.Attribute) and b.attr == "hof" and norm(b.value) == "self":
                            store = node
                if isinstance(node, ast.Call) and isinstance(node.func, ast.Attribute) and node.func.attr in ("append", "insert", "extend", "sort", "reverse", "remove", "clear") \
                        and isinstance(node.func.value, ast.Attribute) and node.func.value.attr == "hof" and norm(node.func.value.value) == "self":
                    store = node
                if store is None:
                    continue
                n += 1
                ctx.touch(m, fn)
                init = isinstance(store, ast.Assign) and isinstance(store.targets[0], ast.Attribute) and isinstance(store.value, (ast.ListComp, ast.List)) \
                    and "inf" in norm(store.value) and "None" in norm(store.value)
                if (rel == SB and q.endswith(".update_hof")) or init:
                    ctx.ok("own.hof", m, store, what=f"{q}: sanctioned hall-of-fame write")
                else:
                    ctx.fail("own.hof", m, store,
                             f"{q} writes the hall of fame directly (`{short(store, 60)}`) instead of going through update_hof: the entry is not placed by "
                             f"score, and its score need not be the one this solver's metric (with this solver's noise setting) gives for the stored "
                             f"circuit", func=q, construct=f"{q}: hall of fame written outside update_hof")
    if n < 3:
        raise AnalysisError("own.hof: hall-of-fame writes not found (update_hof moved?)")



# --------------------------------------------------------------------------- budget.emitter-cap (initial emission assignment)


def rule_emitter_cap(ctx: Ctx) -> None:
    """budget.emitter-cap: get_emission_assignment hands out emitter indices 0 .. n_emitter-1.  The index handed to a photon is either the
    counter of emitters in use or a draw below it, so the counter must never pass n_emitter: every `counter = counter + 1` sits under
    a condition that relates the counter to n_emitter (`counter < n_emitter`, or the balance `photons left == emitters left`).  An
    unguarded increment lets the draw reach n_emitter, and CircuitDAG.add silently creates that extra emitter register."""
    repo = ctx.repo
    m = repo.module(EVO)
    fn = repo.anchor(EVO, "EvolutionarySolver.get_emission_assignment")
    ctx.touch(m, fn)
    ps = func_params(fn)
    ne = [p_ for p_ in ps if "emitter" in p_]
    if not ne:
        raise AnalysisError("get_emission_assignment: n_emitter parameter not found")
    ne = ne[0]
    incs = [a for a in ast.walk(fn) if (isinstance(a, ast.Assign) and len(a.targets) == 1 and isinstance(a.targets[0], ast.Name) and isinstance(a.value, ast.BinOp)
                                          and isinstance(a.value.op, ast.Add) and norm(a.value.left) == a.targets[0].id and norm(a.value.right) == "1")
            or (isinstance(a, ast.AugAssign) and isinstance(a.op, ast.Add) and isinstance(a.target, ast.Name) and norm(a.value) == "1")]
    if not incs:
        raise AnalysisError("get_emission_assignment: used-emitter counter increment not found")
    for a in incs:
        ctr = a.targets[0].id if isinstance(a, ast.Assign) else a.target.id
        guarded = False
        p_ = parent(a)
        while p_ is not None and p_ is not fn:
            if isinstance(p_, ast.If):
                from ..chains import positive
                pt, negated = positive(p_.test)
                true_arm = p_.orelse if negated else p_.body
                if any(a is x for b_ in true_arm for x in ast.walk(b_)):
                    names = {x.id for x in ast.walk(pt) if isinstance(x, ast.Name)}
                    if ne in names and ctr in names:
                        guarded = True
            p_ = parent(p_)
        if guarded:
            ctx.ok("budget.emitter-cap", m, a, what=f"`{ctr}` grows only under a condition relating it to {ne}")
        else:
            ctx.fail("budget.emitter-cap", m, a,
                     f"get_emission_assignment increments `{ctr}` without a condition relating it to `{ne}`: once every emitter is in use the "
                     f"counter keeps growing, the next draw can return {ne} or more, and the initial circuit emits a photon from an emitter register "
                     f"beyond the budget (CircuitDAG.add creates it silently, and it never gets a measure-and-reset)",
                     func="EvolutionarySolver.get_emission_assignment", construct=f"get_emission_assignment: {ctr} incremented without a cap")


# --------------------------------------------------------------------------- order.emission-first


def rule_emission_first(ctx: Ctx) -> None:
    """order.emission-first: EvolutionarySolver.initialization appends operations to the circuit in time order.  A measure-and-reset of
    emitter j puts a classically controlled X on photon measurement_assignment[j] — an arbitrary photon — so it may only be appended once
    *every* photon has been emitted: no MeasurementCNOTandReset may be added inside (or by a helper called from inside) the loop that
    adds the emission CNOTs."""
    repo = ctx.repo
    m = repo.module(EVO)
    fn = repo.anchor(EVO, "EvolutionarySolver.initialization")
    ctx.touch(m, fn)

    def ctor_kind(c):
        return (call_name(c) or "").split(".")[-1]

    def builds(node, kind):
        return any(isinstance(c, ast.Call) and ctor_kind(c) == kind for c in ast.walk(node))
    local_fns = {f.name: f for f in ast.walk(fn) if isinstance(f, ast.FunctionDef) and f is not fn}
    emit_loops = [l for l in fn.body if isinstance(l, ast.For) and any(
        isinstance(c, ast.Call) and ctor_kind(c) == "CNOT" and (get_kw(c, "target_type") is not None and norm(get_kw(c, "target_type")) == "'p'")
        for c in ast.walk(l))]
    if len(emit_loops) != 1:
        raise AnalysisError("initialization: the loop that adds the emission CNOTs was not found")
    lp = emit_loops[0]
    it_ok = isinstance(lp.iter, ast.Call) and call_name(lp.iter) == "range" and len(lp.iter.args) == 1
    inside = []
    for x in ast.walk(lp):
        if isinstance(x, ast.Call) and ctor_kind(x) == "MeasurementCNOTandReset":
            inside.append(x)
        if isinstance(x, ast.Call) and isinstance(x.func, ast.Name) and x.func.id in local_fns and builds(local_fns[x.func.id], "MeasurementCNOTandReset"):
            inside.append(x)
        if isinstance(x, ast.Call) and isinstance(x.func, ast.Attribute) and norm(x.func.value) == "self":
            cf = repo.try_anchor(EVO, f"EvolutionarySolver.{x.func.attr}")
            if isinstance(cf, ast.FunctionDef) and cf is not fn and builds(cf, "MeasurementCNOTandReset"):
                inside.append(x)
    if inside:
        ctx.fail("order.emission-first", m, inside[0],
                 f"initialization appends a measure-and-reset (`{short(inside[0], 60)}`) while the emission loop is still running: its X correction targets "
                 f"`measurement_assignment[j]`, which may be a photon that has not been emitted yet — that photon's first operation is then the "
                 f"correction, and its emission CNOT comes after it (validate() does not notice)",
                 func="EvolutionarySolver.initialization", construct="initialization: measure-and-reset inside the emission loop")
    else:
        ctx.ok("order.emission-first", m, lp, what="no measure-and-reset is appended before all emissions are in place")
    # and the measure-and-reset block exists after it
    after = [st for st in fn.body if st.lineno > lp.lineno and builds(st, "MeasurementCNOTandReset")]
    if not after and not inside:
        raise AnalysisError("initialization: the measure-and-reset block was not found")


# --------------------------------------------------------------------------- score.fresh / keys.cover


def rule_score_fresh(ctx: Ctx) -> None:
    """score.fresh: in the generation loop of EvolutionarySolver.solve every population member is transformed in place, so its stored
    score is stale from that moment on: on *every* path through the member loop the circuit is compiled, scored and stored again.  A
    `continue` that skips the re-evaluation because "nothing changed" relies on a proxy for "unchanged" (node count) that the
    transformations do not honour (add_* fall back to replace_*)."""
    from .. import flow as _flow
    repo = ctx.repo
    m = repo.module(EVO)
    fn = repo.anchor(EVO, "EvolutionarySolver.solve")
    ctx.touch(m, fn)
    pops = {norm(a.targets[0]) for a in ast.walk(fn) if isinstance(a, ast.Assign) and isinstance(a.value, ast.Call) and call_attr(a.value) == "population_initialization"}
    stores = [a for a in ast.walk(fn) if isinstance(a, ast.Assign) and isinstance(a.targets[0], ast.Subscript) and norm(a.targets[0].value) in pops
              and isinstance(a.value, ast.Tuple) and len(a.value.elts) == 2]
    if len(stores) != 1:
        raise AnalysisError("solve(): the store `population[j] = (score, circuit)` was not found")
    st = stores[0]
    loop = next((a for a in _ancestors(st) if isinstance(a, ast.For)), None)
    if loop is None:
        raise AnalysisError("solve(): member loop not found")
    if _flow.must_pass(loop.body, lambda nd: nd is st):
        ctx.ok("score.fresh", m, st, what="every transformed member is re-scored and stored on every path")
    else:
        skip = next((x for x in ast.walk(loop) if isinstance(x, (ast.Continue, ast.Break)) and next((a for a in _ancestors(x) if isinstance(a, (ast.For, ast.While))), None) is loop), None)
        ctx.fail("score.fresh", m, skip or st,
                 "solve() has a path through the member loop that transforms the circuit but does not store a new (score, circuit) pair"
                 + (f" (`{short(skip)}` at line {skip.lineno})" if skip is not None else "") +
                 ": the member keeps the score of the circuit it was before the transformation, and that pair can enter the hall of fame",
                 func="EvolutionarySolver.solve", construct="solve: member re-evaluation skipped on some path")


def _ancestors(n):
    p_ = parent(n)
    while p_ is not None:
        yield p_
        p_ = parent(p_)


def rule_noise_keys_cover(ctx: Ctx) -> None:
    """keys.cover: the noise-model mapping of the solvers has one section per kind of gate — the class reads "e", "p", "ee" and "ep".
    A summary of the mapping computed over a literal tuple of section names (is there any noise at all?) has to name all of them;
    a subset silently treats noise on the missing sections as absent."""
    repo = ctx.repo
    m = repo.module(EVO)
    ci = repo.cls("EvolutionarySolver", EVO)
    used = set()
    for fn in ci.methods().values():
        for x in ast.walk(fn):
            if isinstance(x, ast.Subscript) and isinstance(x.slice, ast.Constant) and isinstance(x.slice.value, str) \
                    and isinstance(x.value, (ast.Name, ast.Attribute)) and norm(x.value).endswith("noise_model_mapping"):
                used.add(x.slice.value)
    if len(used) < 3:
        raise AnalysisError("EvolutionarySolver: sections of noise_model_mapping not found")
    n = 0
    for fn in ci.methods().values():
        for it in [g for c in ast.walk(fn) if isinstance(c, (ast.GeneratorExp, ast.ListComp, ast.SetComp)) for g in c.generators] + \
                  [l for l in ast.walk(fn) if isinstance(l, ast.For)]:
            seq = it.iter
            if isinstance(seq, (ast.Tuple, ast.List, ast.Set)) and seq.elts and all(isinstance(e, ast.Constant) and isinstance(e.value, str) for e in seq.elts):
                keys = {e.value for e in seq.elts}
                body = it if isinstance(it, ast.For) else parent(it)
                if keys <= used and any("noise_model_mapping" in norm(y) for y in ast.walk(body)) and len(keys) >= 2:
                    n += 1
                    ctx.touch(m, fn)
                    if keys == used:
                        ctx.ok("keys.cover", m, seq, what=f"all sections {sorted(used)}")
                    else:
                        ctx.fail("keys.cover", m, seq,
                                 f"`{short(seq)}` summarises the noise mapping over {sorted(keys)} only; the class also reads the sections {sorted(used - keys)}: "
                                 f"a mapping whose noise sits only there is treated as noise-free", func=f"EvolutionarySolver.{fn.name}",
                                 construct=f"EvolutionarySolver.{fn.name}: mapping summarised over {sorted(keys)}")
    ctx.ok_abstract("keys.cover", f"sections read by the class: {sorted(used)}; {n} literal section lists checked")


# --------------------------------------------------------------------------- filter.literals

# (function, edge_dict key) -> literals every selected edge must satisfy: (edge end, operation class, 'is' | 'is-not').
# Read off the moves' physics and confirmed against today's tree, one reason per line:
EDGE_FILTER_LITERALS = {
    ("EvolutionarySolver.add_photon_one_qubit_op", "p"): [(0, "CNOT", "is"),                      # a photon gate goes right behind the photon's emission
                                                          (1, "OneQubitGateWrapper", "is-not")],     # ... unless a local Clifford already sits there
    ("EvolutionarySolver.add_emitter_one_qubit_op", "e"): [(0, "OneQubitGateWrapper", "is-not"),     # never two local Cliffords in a row
                                                           (1, "OneQubitGateWrapper", "is-not"),
                                                           (1, "Output", "is-not")],                 # nothing after the emitter's last operation
    ("EvolutionarySolver._select_possible_cnot_position", "e"): [(1, "Output", "is-not")],
    ("EvolutionarySolver._select_possible_measurement_position", "e"): [(0, "Input", "is-not"), (0, "MeasurementCNOTandReset", "is-not"),
                                                                        (1, "MeasurementCNOTandReset", "is-not"), (1, "Output", "is-not")],
    ("EvolutionarySolver._select_possible_measurement_position", "p"): [(0, "Input", "is-not"),   # never in front of the photon's emission
                                                                        (1, "MeasurementCNOTandReset", "is-not")],
}


def rule_filter_literals(ctx: Ctx) -> None:
    """filter.literals: the edge filters of the mutation moves, on their truth tables.  For each (move, wire kind) the filter — however it
    is written — must *imply* every literal of the table above ("the operation at this end of the edge is / is not of class K"); an
    `or` for an `and`, a flipped `is not`, or a dropped test makes the filter admit an edge the table forbids.  Extra restrictions are
    allowed.  The filter must also be satisfiable."""
    from ..boolform import Table
    import re as _re
    repo = ctx.repo
    m = repo.module(EVO)
    n = 0
    for (q, kind), lits in EDGE_FILTER_LITERALS.items():
        fn = repo.anchor(EVO, q)
        ctx.touch(m, fn)
        comps = [c for c in ast.walk(fn) if isinstance(c, ast.ListComp) and c.generators[0].ifs
                 and _re.search(r"edge_dict\[['\"]%s['\"]\]" % kind, norm(c.generators[0].iter))]
        if not comps:
            raise AnalysisError(f"{q}: filter over edge_dict['{kind}'] not found")
        c = comps[0]
        g = c.generators[0]
        ev = norm(g.target)
        tb = Table()
        f = tb.formula(ast.BoolOp(op=ast.And(), values=list(g.ifs)) if len(g.ifs) > 1 else g.ifs[0], {})
        rows = list(tb.rows())
        n += 1
        if not any(f(a) for a in rows):
            ctx.fail("filter.literals", m, c, f"{q}: the filter over edge_dict['{kind}'] can never be satisfied", func=q, construct=f"{q}[{kind}]: unsatisfiable")
            continue
        bad = []
        for end, cls_, pol in lits:
            keys = [k for k in tb.atoms if f"{ev}[{end}]" in k and _re.search(r"\bops\.%s\b" % cls_, k) and "type(" in k]
            if not keys:
                bad.append(f"no test of the operation at {ev}[{end}] against {cls_}")
                continue
            k = keys[0]
            want = (pol == "is")
            if any(f(a) and a[k] != want for a in rows):
                bad.append(f"an edge whose operation at {ev}[{end}] {'is not' if want else 'is'} {cls_} is admitted")
        if bad:
            ctx.fail("filter.literals", m, c, f"{q}: filter over edge_dict['{kind}']: " + "; ".join(bad), func=q, construct=f"{q}[{kind}]: " + bad[0][:60])
        else:
            ctx.ok("filter.literals", m, c, what=f"{q}[{kind}] implies {len(lits)} literal(s)")
    if n < 5:
        raise AnalysisError("filter.literals: fewer filters than the table lists")
