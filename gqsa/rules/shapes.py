"""Definition-shape rules: a function's result expression has the structural form its definition requires.
Each is a necessary condition of the property it is listed under (breaking the shape breaks the behaviour for some input);
none evaluates the expression."""
from __future__ import annotations

import ast
from typing import Dict, List, Optional

from .. import linear
from ..core import (AnalysisError, Repo, call_attr, call_name, calls_in, dotted, func_params, get_kw, norm, parent, qualname,
                    short, symbolic_return)
from ..report import Ctx
from . import order

DMF = "graphiq/backends/density_matrix/functions.py"
SRC = "graphiq/backends/state_rep_conversion.py"
RC = "graphiq/backends/stabilizer/functions/rep_conversion.py"
CLIFF = "graphiq/backends/stabilizer/functions/clifford.py"
RELABEL = "graphiq/utils/relabel_module.py"
SB = "graphiq/solvers/solver_base.py"
METRICS = "graphiq/metrics.py"
LCC = "graphiq/backends/stabilizer/functions/local_cliff_equi_check.py"
OPS = "graphiq/circuit/ops.py"


def _anc(n):
    p = parent(n)
    while p is not None:
        yield p
        p = parent(p)


# --------------------------------------------------------------------------- C17 trace distance


def rule_trace_distance_shape(ctx: Ctx) -> None:
    """trace_distance = 1/2 * sum |eigenvalues(rho - sigma)|."""
    repo = ctx.repo
    m = repo.module(DMF)
    fn = repo.anchor(DMF, "trace_distance")
    ctx.touch(m, fn)
    a, b = func_params(fn)[:2]
    ev = [n for n in ast.walk(fn) if isinstance(n, ast.Assign) and isinstance(n.value, ast.Call) and call_attr(n.value) in ("eigh", "eigvalsh", "eigvals", "eig")]
    ret = [r for r in ast.walk(fn) if isinstance(r, ast.Return) and r.value is not None]
    ok = False
    why = "no eigen-decomposition of the difference"
    if ev and ret:
        arg = ev[0].value.args[0]
        diff_ok = isinstance(arg, ast.BinOp) and isinstance(arg.op, ast.Sub) and {norm(arg.left), norm(arg.right)} == {a, b}
        tgt = ev[0].targets[0]
        vals = norm(tgt.elts[0]) if isinstance(tgt, ast.Tuple) else norm(tgt)
        # shortcut returns: only the closed form for *two* pure states, sqrt(1 - Tr[rho sigma]), under `is_pure(a) and is_pure(b)`
        main = [r_ for r_ in ret if not any(isinstance(x, ast.If) and "is_pure" in norm(x.test) for x in _anc(r_))]
        for r_ in [x for x in ret if x not in main]:
            g = next(x for x in _anc(r_) if isinstance(x, ast.If) and "is_pure" in norm(x.test))
            t = g.test
            both = isinstance(t, ast.BoolOp) and isinstance(t.op, ast.And) and f"is_pure({a})" in norm(t) and f"is_pure({b})" in norm(t) \
                and any(r_ is x for b_ in g.body for x in ast.walk(b_))
            if both:
                ctx.ok("dist.shape", m, r_, what="closed form under `both pure`")
            else:
                ctx.fail("dist.shape", m, r_,
                         f"trace_distance returns `{short(r_.value, 60)}` under `{short(t, 60)}`: a closed form in the overlap Tr[rho sigma] is the trace "
                         f"distance only when *both* states are pure; with one pure and one mixed state it gives the Fuchs-van de Graaf upper bound "
                         f"instead (T(|0><0|, I/2) = 0.707 instead of 0.5)", func="trace_distance", construct="trace_distance: shortcut not restricted to two pure states")
        ret = main or ret
        r = ret[0].value
        half = False
        inner = None
        if isinstance(r, ast.BinOp) and isinstance(r.op, ast.Mult):
            for x, y in ((r.left, r.right), (r.right, r.left)):
                if isinstance(x, ast.Constant) and x.value == 0.5:
                    half, inner = True, y
        elif isinstance(r, ast.BinOp) and isinstance(r.op, ast.Div) and isinstance(r.right, ast.Constant) and r.right.value == 2:
            half, inner = True, r.left
        abs_sum = inner is not None and isinstance(inner, ast.Call) and call_attr(inner) == "sum" and inner.args \
            and isinstance(inner.args[0], ast.Call) and call_attr(inner.args[0]) in ("abs", "absolute") and norm(inner.args[0].args[0]) == vals
        ok = diff_ok and half and abs_sum
        why = f"difference of the two states: {diff_ok}; factor 1/2: {half}; sum of absolute eigenvalues: {bool(abs_sum)}"
    if ok:
        ctx.ok("dist.shape", m, ret[0], what="0.5 * sum(|eig(rho - sigma)|)")
    else:
        ctx.fail("dist.shape", m, fn, f"trace_distance does not have the form 0.5 * sum(abs(eigenvalues of (rho - sigma))) ({why}); the result "
                                      f"is then not a metric bounded by 1", func="trace_distance", construct="trace_distance: result form")
    # fidelity's pure-state shortcut: real(trace(rho @ sigma)) clipped to [0, 1]
    fn = repo.anchor(DMF, "fidelity")
    a, b = func_params(fn)[:2]
    pure_if = [n for n in ast.walk(fn) if isinstance(n, ast.If) and "is_pure" in norm(n.test)]
    ok = False
    if pure_if:
        from ..chains import positive
        pt, negated = positive(pure_if[0].test)
        t = norm(pt)
        both = f"is_pure({a})" in t and f"is_pure({b})" in t and isinstance(pt, ast.BoolOp) and isinstance(pt.op, ast.Or)
        arm = pure_if[0].orelse if negated else pure_if[0].body
        r = [x for x in arm if isinstance(x, ast.Return)]
        tr = [c for c in calls_in(r[0]) if call_attr(c) == "trace"] if r else []
        prod = tr and isinstance(tr[0].args[0], ast.BinOp) and isinstance(tr[0].args[0].op, ast.MatMult) \
            and {norm(tr[0].args[0].left), norm(tr[0].args[0].right)} == {a, b}
        ok = both and bool(prod)
    if ok:
        ctx.ok("dist.shape", m, pure_if[0], what="pure shortcut: trace(rho @ sigma) when either state is pure")
    else:
        ctx.fail("dist.shape", m, fn, "fidelity's shortcut must return trace(rho @ sigma) exactly when either state is pure",
                 func="fidelity", construct="fidelity: pure-state shortcut")


    # Uhlmann branch: F = (Re Tr sqrt( sqrt(rho) sigma sqrt(rho) ))^2 — the square of the trace of the *second* square root
    if pure_if:
        arm2 = pure_if[0].body if negated else pure_if[0].orelse
        defs_ = {}
        for a_ in [x for st in arm2 for x in ast.walk(st) if isinstance(x, ast.Assign) and len(x.targets) == 1 and isinstance(x.targets[0], ast.Name)]:
            defs_.setdefault(a_.targets[0].id, []).append(a_.value)
        pows = [x for st in arm2 for x in ast.walk(st) if isinstance(x, ast.BinOp) and isinstance(x.op, ast.Pow)]
        good = False
        why = "no `(... trace ...) ** 2` found"
        for pw in pows:
            has_tr = any(isinstance(c, ast.Call) and call_attr(c) == "trace" for c in ast.walk(pw.left))
            if not has_tr:
                continue
            if not (isinstance(pw.right, ast.Constant) and pw.right.value == 2):
                why = f"the trace is raised to the power `{short(pw.right)}`, the Uhlmann fidelity is its square"
                continue
            tr_ = next(c for c in ast.walk(pw.left) if isinstance(c, ast.Call) and call_attr(c) == "trace")
            arg = tr_.args[0] if tr_.args else None
            srcs = defs_.get(arg.id, []) if isinstance(arg, ast.Name) else [arg]
            if any(isinstance(v, ast.Call) and call_attr(v) in ("sqrtm_psd", "sqrtm") or (isinstance(v, ast.Call) and isinstance(v.func, ast.Name) and v.func.id in ("sqrtm_psd", "sqrtm")) for v in srcs):
                good = True
            else:
                why = f"the trace is taken of `{short(arg)}`, which is not a matrix square root"
        if good:
            ctx.ok("dist.shape", m, pows[0], what="mixed branch: (Re Tr sqrt(sqrt(rho) sigma sqrt(rho)))^2")
        else:
            ctx.fail("dist.shape", m, arm2[0] if arm2 else fn, f"fidelity, both states mixed: {why}", func="fidelity", construct="fidelity: Uhlmann form")


# --------------------------------------------------------------------------- C08 graph -> state construction


def rule_graph_build(ctx: Ctx) -> None:
    repo = ctx.repo
    m = repo.module(SRC)
    fn = repo.anchor(SRC, "_graph_to_density_pure")
    ctx.touch(m, fn)
    init = [n for n in ast.walk(fn) if isinstance(n, ast.Assign) and isinstance(n.value, ast.Call) and call_attr(n.value) == "create_n_plus_state"]
    loops = [l for l in ast.walk(fn) if isinstance(l, ast.For) and any(call_attr(c) == "apply_cz" for c in calls_in(l))]
    ok = False
    if init and len(loops) == 1:
        st = norm(init[0].targets[0])
        l = loops[0]
        src = norm(l.iter)
        for n in ast.walk(fn):
            if isinstance(n, ast.Assign) and norm(n.targets[0]) == src:
                src = norm(n.value)
        cz = [c for c in calls_in(l) if call_attr(c) == "apply_cz"][0]
        e = norm(l.target)
        upd = isinstance(parent(cz), ast.Assign) and norm(parent(cz).targets[0]) == st and norm(cz.args[0]) == st
        ends = sorted(norm(a) for a in cz.args[1:3])
        ok = ".edges" in src and upd and all(f"{e}[0]" in x or f"{e}[1]" in x for x in ends) and ends[0] != ends[1]
    if ok:
        ctx.ok("graph.build", m, loops[0], what="|G> = prod_{(u,v) in E} CZ_uv |+>^n")
    else:
        ctx.fail("graph.build", m, fn, "_graph_to_density_pure must start from create_n_plus_state(n) and apply apply_cz once per edge of the "
                                       "graph on that edge's two endpoints, accumulating into the same state", func="_graph_to_density_pure",
                 construct="_graph_to_density_pure: CZ-on-|+> construction")
    dm = repo.module(DMF)
    cz = repo.anchor(DMF, "apply_cz")
    g = [c for c in calls_in(cz) if call_attr(c) == "get_two_qubit_controlled_gate"]
    if len(g) == 1 and isinstance(g[0].args[3], ast.Call) and call_attr(g[0].args[3]) == "sigmaz" \
            and [norm(x) for x in g[0].args[1:3]] == func_params(cz)[1:3]:
        ctx.ok("graph.build", dm, g[0], what="apply_cz = controlled sigma_z on (control, target)")
    else:
        ctx.fail("graph.build", dm, cz, "apply_cz no longer builds a controlled-sigmaz on its two qubit arguments", func="apply_cz",
                 construct="apply_cz: controlled gate")
    # stabilizer side: X part identity, Z part adjacency
    f2 = repo.anchor(SRC, "_graph_to_stabilizer_pure")
    ctx.touch(m, f2)
    r = [x for x in ast.walk(f2) if isinstance(x, ast.Return) and isinstance(x.value, ast.Call) and call_attr(x.value) == "StabilizerTableau"]
    good = False
    if r and isinstance(r[0].value.args[0], ast.List) and len(r[0].value.args[0].elts) == 2:
        x, z = r[0].value.args[0].elts
        good = isinstance(x, ast.Call) and call_attr(x) in ("eye", "identity") and "adj" in norm(z)
    if good:
        ctx.ok("graph.build", m, r[0], what="graph stabilizers: X part identity, Z part adjacency")
    else:
        ctx.fail("graph.build", m, f2, "_graph_to_stabilizer_pure must return StabilizerTableau([identity, adjacency])", func="_graph_to_stabilizer_pure",
                 construct="_graph_to_stabilizer_pure: [X, Z] blocks")
    rm = repo.module(RC)
    f3 = repo.anchor(RC, "get_stabilizer_tableau_from_graph")
    ctx.touch(rm, f3)
    xs = [n for n in ast.walk(f3) if isinstance(n, ast.Assign) and norm(n.targets[0]).endswith(".x_matrix")]
    zs = [n for n in ast.walk(f3) if isinstance(n, ast.Assign) and norm(n.targets[0]).endswith(".z_matrix")]
    if xs and zs and "eye(" in norm(xs[0].value) and "adj" in norm(zs[0].value):
        ctx.ok("graph.build", rm, xs[0], what="get_stabilizer_tableau_from_graph: x = I, z = adjacency")
    else:
        ctx.fail("graph.build", rm, f3, "get_stabilizer_tableau_from_graph must set x_matrix to the identity and z_matrix to the adjacency matrix",
                 func="get_stabilizer_tableau_from_graph", construct="get_stabilizer_tableau_from_graph: blocks")


# --------------------------------------------------------------------------- C07 removal order


def rule_removal_order(ctx: Ctx) -> None:
    """sfc.partial_trace removes qubits one by one: positions must be visited in descending order, otherwise removing a
    lower index shifts the positions still to be removed."""
    repo = ctx.repo
    m = repo.module(CLIFF)
    fn = repo.anchor(CLIFF, "partial_trace")
    ctx.touch(m, fn)
    loops = [l for l in ast.walk(fn) if isinstance(l, ast.For) and any(call_attr(c) == "remove_qubit" for c in calls_in(l))]
    if len(loops) != 1:
        raise AnalysisError("sfc.partial_trace: removal loop not found")
    it = loops[0].iter
    src = it
    if isinstance(it, ast.Name):
        for n in ast.walk(fn):
            if isinstance(n, ast.Assign) and norm(n.targets[0]) == it.id:
                src = n.value
    desc = False
    if isinstance(src, ast.Call) and call_attr(src) == "sorted":
        rv = get_kw(src, "reverse")
        desc = isinstance(rv, ast.Constant) and rv.value is True
    elif isinstance(src, ast.Subscript) and norm(src.slice) == "::-1" and isinstance(src.value, ast.Call) and call_attr(src.value) == "sorted":
        desc = get_kw(src.value, "reverse") is None
    elif isinstance(src, ast.Call) and call_attr(src) == "reversed" and isinstance(src.args[0], ast.Call) and call_attr(src.args[0]) == "sorted":
        desc = get_kw(src.args[0], "reverse") is None
    c = [c for c in calls_in(loops[0]) if call_attr(c) == "remove_qubit"][0]
    # a descending range over the positions is the other idiom: range(n - 1, -1, -1) with a membership test inside.  It has to reach
    # position 0 (stop -1) and start at the last position
    if isinstance(src, ast.Call) and call_name(src) == "range" and len(src.args) == 3 and norm(src.args[2]) == "-1":
        nq = {norm(a.targets[0]) for a in ast.walk(fn) if isinstance(a, ast.Assign) and norm(a.value).endswith(".n_qubits")} | {f"{func_params(fn)[0]}.n_qubits"}
        st = linear.clean(linear.lin(src.args[0]) or {"?": 1})
        start_ok = any(st == {q_: 1, "": -1} for q_ in nq)
        stop_ok = norm(src.args[1]) == "-1"
        if not (start_ok and stop_ok):
            ctx.fail("order.removal", m, loops[0],
                     f"sfc.partial_trace walks the positions with `{short(src)}`: a descending walk over all positions is range(n_qubits - 1, -1, -1); this one "
                     f"{'never visits position 0' if start_ok else 'does not start at the last position'}, so a qubit there is kept although it is not in `keep`",
                     func="partial_trace", construct=f"partial_trace: removal walk {short(src, 60)} misses a position")
            return
        desc = True
    if desc and norm(c.args[1]) == norm(loops[0].target):
        ctx.ok("order.removal", m, loops[0], what="qubits removed in descending position order")
    else:
        ctx.fail("order.removal", m, loops[0],
                 f"sfc.partial_trace removes qubits while iterating `{short(src)}`; unless the positions are visited in descending order each "
                 f"removal shifts the positions that are still to be removed and the wrong qubits are traced out",
                 func="partial_trace", construct=f"partial_trace: removal order {short(src, 60)}")


# --------------------------------------------------------------------------- C16 relabel form


def rule_relabel_map_self(ctx: Ctx) -> None:
    """relabel.map-self: get_relabel_map's shortcut fires when the two adjacency matrices, each taken in its graph's own node order,
    are equal; the isomorphism this establishes pairs the nodes *by position* — dict(zip(g1.nodes(), g2.nodes())) — not by label."""
    repo = ctx.repo
    m = repo.module(RELABEL)
    fn = repo.anchor(RELABEL, "get_relabel_map")
    ctx.touch(m, fn)
    g1, g2 = func_params(fn)[:2]
    guards = [i for i in ast.walk(fn) if isinstance(i, ast.If) and any(isinstance(c, ast.Call) and call_attr(c) in ("array_equal", "array_equiv", "allclose")
                                                                        for c in ast.walk(i.test))]
    if not guards:
        ctx.ok_abstract("relabel.map-self", "get_relabel_map has no equal-matrices shortcut (always matches with GraphMatcher)")
        return
    for g in guards:
        rets = [r for r in ast.walk(g) if isinstance(r, ast.Return) and r.value is not None and any(r is x for b in g.body for x in ast.walk(b))]
        for r in rets:
            zips = [c for c in ast.walk(r.value) if isinstance(c, ast.Call) and call_name(c) == "zip" and len(c.args) == 2]
            ok = any(norm(z.args[0]) in (f"{g1}.nodes()", f"{g1}.nodes", f"list({g1}.nodes())", g1, f"list({g1})")
                     and norm(z.args[1]) in (f"{g2}.nodes()", f"{g2}.nodes", f"list({g2}.nodes())", g2, f"list({g2})") for z in zips)
            if ok:
                ctx.ok("relabel.map-self", m, r, what="equal matrices: nodes paired by position")
            else:
                ctx.fail("relabel.map-self", m, r,
                         f"get_relabel_map returns `{short(r.value, 70)}` when the two position-ordered adjacency matrices are equal: that equality "
                         f"pairs the i-th node of {g1} with the i-th node of {g2}; any other map (each node to itself, say) is not an isomorphism "
                         f"for graphs whose node order differs from their label order", func="get_relabel_map",
                         construct="get_relabel_map: shortcut map is not the position pairing")


def rule_relabel_map_direction(ctx: Ctx) -> None:
    """relabel.map-direction: get_relabel_map(g1, g2) returns a map from the nodes of g1 to the nodes of g2; the matcher it delegates to
    (GraphMatcher(a, b).mapping, nx.vf2pp_isomorphism(a, b), nx.vf2pp_all_isomorphisms) maps its FIRST graph onto its SECOND, so it must
    be called with (g1, g2) in this order; swapped, the inverse permutation is returned (the same only for involutions)."""
    repo = ctx.repo
    m = repo.module(RELABEL)
    fn = repo.anchor(RELABEL, "get_relabel_map")
    ctx.touch(m, fn)
    g1, g2 = func_params(fn)[:2]
    cs = [c for c in calls_in(fn) if (call_attr(c) or call_name(c) or "").split(".")[-1] in ("GraphMatcher", "vf2pp_isomorphism", "vf2pp_all_isomorphisms", "DiGraphMatcher")]
    if not cs:
        raise AnalysisError("get_relabel_map: isomorphism matcher call not found")
    for c in cs:
        a = [norm(x) for x in c.args[:2]]
        if a == [g1, g2]:
            ctx.ok("relabel.map-direction", m, c, what="matcher called as (g1, g2): the mapping runs g1 -> g2")
        elif a == [g2, g1]:
            ctx.fail("relabel.map-direction", m, c,
                     f"get_relabel_map calls `{short(c)}` with the two graphs swapped: the returned mapping runs from {g2} to {g1}, the inverse of the "
                     f"relabelling the callers apply (the alternate-target solver reports a map under which its circuit does not generate the renamed "
                     f"target, unless the relabelling is an involution)", func="get_relabel_map", construct="get_relabel_map: matcher arguments swapped")
        else:
            raise AnalysisError(f"get_relabel_map: matcher arguments `{a}` not recognised")


def rule_relabel_form(ctx: Ctx) -> None:
    """relabel(A, p) = P^T A P with P[i, p(i)] = 1, so that new[p(u), p(v)] = A[u, v]."""
    repo = ctx.repo
    m = repo.module(RELABEL)
    fn = repo.anchor(RELABEL, "relabel")
    ctx.touch(m, fn)
    adj, labels = func_params(fn)[:2]
    pm = [n for n in ast.walk(fn) if isinstance(n, ast.Assign) and isinstance(n.value, ast.Call) and call_attr(n.value) == "_perm2matrix"
          and norm(n.value.args[0]) == labels]
    prods = [n for n in ast.walk(fn) if isinstance(n, ast.BinOp) and isinstance(n.op, ast.MatMult) and isinstance(n.left, ast.BinOp)
             and isinstance(n.left.op, ast.MatMult)]
    ok = False
    if pm and prods:
        P = norm(pm[0].targets[0])
        e = prods[0]
        ok = norm(e.left.left) in (f"{P}.T", f"{P}.transpose()", f"np.transpose({P})") and norm(e.left.right) == adj and norm(e.right) == P
    if ok:
        ctx.ok("relabel.form", m, prods[0], what="P.T @ A @ P")
    else:
        ctx.fail("relabel.form", m, fn, "relabel must conjugate as P.T @ adj @ P with P = _perm2matrix(new_labels); the transposed form applies "
                                        "the inverse permutation (edge (p(u), p(v)) would not correspond to (u, v))", func="relabel",
                 construct="relabel: conjugation form")
    pf = repo.anchor(RELABEL, "_perm2matrix")
    ctx.touch(m, pf)
    seq = func_params(pf)[0]
    good = False
    for l in ast.walk(pf):
        if isinstance(l, ast.For) and isinstance(l.iter, ast.Call) and call_attr(l.iter) == "enumerate" and norm(l.iter.args[0]) == seq \
                and isinstance(l.target, ast.Tuple):
            i, lab = [norm(x) for x in l.target.elts]
            for st in l.body:
                if isinstance(st, ast.Assign) and isinstance(st.targets[0], ast.Subscript) and norm(st.targets[0].slice) == f"({i}, {lab})" \
                        and isinstance(st.value, ast.Constant) and st.value.value == 1:
                    good = True
    if good:
        ctx.ok("relabel.form", m, pf, what="P[i, p(i)] = 1")
    else:
        ctx.fail("relabel.form", m, pf, "_perm2matrix must set permute_matrix[i, sequence[i]] = 1 for every position i", func="_perm2matrix",
                 construct="_perm2matrix: entry placement")


# --------------------------------------------------------------------------- C19 hall-of-fame order


def rule_hof_order(ctx: Ctx) -> None:
    """update_hof scans positions in ascending order and inserts before the first entry whose score is larger."""
    repo = ctx.repo
    m = repo.module(SB)
    fn = repo.anchor(SB, "RandomSearchSolver.update_hof")
    ctx.touch(m, fn)
    ins = [c for c in calls_in(fn) if call_name(c) == "self.hof.insert"]
    loops = [l for l in ast.walk(fn) if isinstance(l, ast.For) and any(c in calls_in(l) for c in ins) and isinstance(l.iter, ast.Call)
             and call_attr(l.iter) == "range"]
    if not loops:
        raise AnalysisError("update_hof: position loop not found")
    l = loops[-1]
    iv = norm(l.target)
    asc = len(l.iter.args) == 1
    if asc:
        ctx.ok("hof.order", m, l.iter, what="positions scanned from best to worst")
    else:
        ctx.fail("hof.order", m, l.iter, f"update_hof scans hall-of-fame positions as `{short(l.iter)}`; inserting before the first larger score "
                                         f"keeps the list ordered only when positions are scanned in ascending order", func="RandomSearchSolver.update_hof",
                 construct=f"update_hof: scan {short(l.iter, 40)}")
    # `a, b = self.hof[i]` in the scanned loop names the entry's score and circuit: read the names as the components they stand for
    import copy as _copy
    from ..core import _Subst
    unpack = {}
    for a_ in ast.walk(l):
        if isinstance(a_, ast.Assign) and len(a_.targets) == 1 and isinstance(a_.targets[0], ast.Tuple) and norm(a_.value) == f"self.hof[{iv}]" \
                and all(isinstance(t_, ast.Name) for t_ in a_.targets[0].elts):
            for k_, t_ in enumerate(a_.targets[0].elts):
                rebound = sum(1 for n_ in ast.walk(l) if isinstance(n_, ast.Name) and isinstance(n_.ctx, ast.Store) and n_.id == t_.id)
                if rebound == 1:
                    unpack[t_.id] = ast.parse(f"self.hof[{iv}][{k_}]", mode="eval").body

    def _rd(e):
        return _Subst(unpack).visit(_copy.deepcopy(e)) if unpack and e is not None else e
    for c in ins:
        pos_ok = norm(c.args[0]) == iv
        guard = None
        for a in _anc(c):
            if isinstance(a, ast.If) and a in ast.walk(l):
                guard = a.test
                break
        # strict-improvement branch: score < hof[i][0]
        guard = _rd(guard)
        txt = norm(guard) if guard is not None else ""
        # the inserted entry names the new score and the new circuit: self.hof.insert(i, (<score>, <circuit>.copy()))
        ent = c.args[1] if len(c.args) > 1 else None
        if not (isinstance(ent, ast.Tuple) and len(ent.elts) == 2):
            raise AnalysisError(f"update_hof: inserted entry `{short(c)}` is not a (score, circuit) pair")
        sc = norm(_rd(ent.elts[0]))
        ce = _block_value(c, ent.elts[1])
        if isinstance(ce, ast.IfExp):
            ce = ce.body
        while isinstance(ce, ast.Call) and isinstance(ce.func, ast.Attribute) and ce.func.attr in ("copy", "deepcopy"):
            ce = ce.func.value
        circ = norm(ce)
        strict = isinstance(guard, ast.Compare) and len(guard.ops) == 1 and (
            (isinstance(guard.ops[0], ast.Lt) and norm(guard.left) == sc and norm(guard.comparators[0]) == f"self.hof[{iv}][0]") or
            (isinstance(guard.ops[0], ast.Gt) and norm(guard.comparators[0]) == sc and norm(guard.left) == f"self.hof[{iv}][0]"))
        def _shorter(g):
            # len(new.dag.nodes) < len(self.hof[i][1].dag.nodes), written either way round
            if not (isinstance(g, ast.Compare) and len(g.ops) == 1):
                return False
            a_, b_ = norm(g.left), norm(g.comparators[0])
            new_, old_ = f"len({circ}.dag.nodes)", f"len(self.hof[{iv}][1].dag.nodes)"
            return (isinstance(g.ops[0], ast.Lt) and (a_, b_) == (new_, old_)) or (isinstance(g.ops[0], ast.Gt) and (a_, b_) == (old_, new_))
        tie = _shorter(guard) and any(
            isinstance(a, ast.If) and "isclose" in norm(a.test) and any(c is x for b in a.body for x in ast.walk(b)) for a in _anc(c))
        if tie and sc == f"self.hof[{iv}][0]":
            ctx.fail("hof.order", m, c, f"`{short(c)}` stores the displaced entry's score `{norm(ent.elts[0])}` with the new circuit: the scores are only close "
                                        f"(np.isclose), not equal, so the entry's stored score is no longer the score its circuit was evaluated with",
                     func="RandomSearchSolver.update_hof", construct="update_hof: tie-break stores the old entry's score")
            continue
        if pos_ok and (strict or tie):
            ctx.ok("hof.order", m, c, what="insert at the scanned position under `score < hof[i][0]` / tie-break")
        else:
            ctx.fail("hof.order", m, c, f"`{short(c)}` guarded by `{txt[:80]}` does not insert the new entry at the first position whose score "
                                        f"is larger: the hall of fame is no longer ordered by non-decreasing score",
                     func="RandomSearchSolver.update_hof", construct=f"update_hof: insert at {norm(c.args[0])} under {txt[:60]}")


def _block_value(call, e):
    """the expression a plain name stands for at `call`: the nearest assignment to it earlier in the same statement block"""
    if not isinstance(e, ast.Name):
        return e
    st = call
    while parent(st) is not None and not isinstance(st, ast.stmt):
        st = parent(st)
    blk = parent(st)
    for name in ("body", "orelse", "finalbody"):
        body = getattr(blk, name, None)
        if isinstance(body, list) and any(st is b for b in body):
            for prev in reversed(body[:[i for i, b in enumerate(body) if b is st][0]]):
                if isinstance(prev, ast.Assign) and any(isinstance(t, ast.Name) and t.id == e.id for t in prev.targets):
                    return prev.value
    return e


# --------------------------------------------------------------------------- C18 metric sources

METRIC_SOURCE = {  # cost metric class -> the circuit attribute its definition names (frozen from the class docstrings)
    "CircuitDepth": "circuit.depth",
    "CircuitEmitterCount": "circuit.n_emitters",
}


EMITTER_WIRE_METRICS = ("CircuitMaxEmitDepth", "CircuitMaxEmitResetDepth", "CircuitMaxEmitEffDepth")


RESET_POINTS = {"Input", "MeasurementCNOTandReset", "Output"}


def rule_reset_points(ctx: Ctx) -> None:
    """metric.reset-points: the reset-depth and effective-depth metrics cut an emitter's history at its Input node, at every
    MeasurementCNOTandReset and at its Output node — exactly these three kinds.  Whether written as a list of class names or as an
    isinstance test, the set of operation classes it accepts (subclasses included) must be exactly that: a base class such as
    ClassicalControlledPairOperationBase also admits ClassicalCNOT / ClassicalCZ, which measure without resetting."""
    repo = ctx.repo
    m = repo.module(METRICS)
    om = repo.module("graphiq/circuit/ops.py")
    fns = []
    for cname in ("CircuitMaxEmitResetDepth", "CircuitMaxEmitEffDepth"):
        ev = repo.cls(cname, METRICS).methods().get("evaluate")
        if ev is not None:
            fns.append((cname + ".evaluate", ev))
            for hc in [x for x in ast.walk(ev) if isinstance(x, ast.Call) and isinstance(x.func, ast.Name)]:
                hf = repo.try_anchor(METRICS, hc.func.id)
                if isinstance(hf, ast.FunctionDef) and all(hf is not f for _, f in fns):
                    fns.append((hf.name, hf))
    n = 0
    for q, fn in fns:
        for t in [x for x in ast.walk(fn) if isinstance(x, (ast.Compare, ast.Call))]:
            accepted = None
            if isinstance(t, ast.Compare) and len(t.ops) == 1 and isinstance(t.ops[0], ast.In) and "__name__" in norm(t.left) \
                    and isinstance(t.comparators[0], (ast.List, ast.Tuple, ast.Set)):
                accepted = {e.value for e in t.comparators[0].elts if isinstance(e, ast.Constant)}
            elif isinstance(t, ast.Call) and call_name(t) == "isinstance" and len(t.args) == 2:
                cls_e = t.args[1].elts if isinstance(t.args[1], (ast.Tuple, ast.List)) else [t.args[1]]
                names = [(dotted(e) or "").split(".")[-1] for e in cls_e]
                cis = [repo.resolve_class(om, nme) for nme in names]
                if all(c is not None for c in cis) and any(nme in ("InputOutputOperationBase", "Input", "Output", "MeasurementCNOTandReset", "ClassicalControlledPairOperationBase") for nme in names):
                    accepted = set()
                    for c in cis:
                        for sub in repo.subclasses(c):
                            if not sub.name.endswith("Base"):
                                accepted.add(sub.name)
            if accepted is None:
                continue
            n += 1
            ctx.touch(m, fn)
            if accepted == RESET_POINTS:
                ctx.ok("metric.reset-points", m, t, what=f"{q}: cuts at Input / MeasurementCNOTandReset / Output")
            elif q.startswith("CircuitMaxEmitResetDepth") and not (accepted - RESET_POINTS) and "MeasurementCNOTandReset" in accepted:
                # the two ends of the history may be handled by position (index 0, last index) instead of by name: whether the intervals come
                # out right is decided on the history model (metric.reset-model)
                ctx.ok("metric.reset-points", m, t, what=f"{q}: cuts at MeasurementCNOTandReset; history ends handled outside the name test (see metric.reset-model)")
            else:
                extra, missing = sorted(accepted - RESET_POINTS), sorted(RESET_POINTS - accepted)
                ctx.fail("metric.reset-points", m, t,
                         f"{q} cuts the emitter history at {sorted(accepted)}"
                         + (f": {extra} do not reset the emitter, so the longest interval is split and the metric comes out too small" if extra else "")
                         + (f"; {missing} not recognised as a cut" if missing else ""), func=q,
                         construct=f"{q}: reset points {sorted(accepted)}")
    if n < 2:
        raise AnalysisError("metric.reset-points: the classification of reset points was not found in the two metrics")


def rule_metric_source(ctx: Ctx) -> None:
    repo = ctx.repo
    m = repo.module(METRICS)
    for cname, src in METRIC_SOURCE.items():
        ci = repo.cls(cname, METRICS)
        ev = ci.methods().get("evaluate")
        if ev is None:
            raise AnalysisError(f"{cname}.evaluate missing")
        ctx.touch(m, ev)
        cp = func_params(ev)[2]
        want = src.replace("circuit", cp)
        a = [n for n in ast.walk(ev) if isinstance(n, ast.Assign) and norm(n.value) == want]
        r = [x for x in ast.walk(ev) if isinstance(x, ast.Return) and x.value is not None]
        ok = False
        if a and r:
            v = norm(a[0].targets[0])
            pen = [n for n in ast.walk(ev) if isinstance(n, ast.Assign) and isinstance(n.value, ast.Call) and norm(n.value.func).startswith("self.")
                   and "penalty" in norm(n.value.func) and [norm(x) for x in n.value.args] == [v]]
            ok = bool(pen) and norm(r[0].value) == norm(pen[0].targets[0])
        if ok:
            ctx.ok("metric.source", m, a[0], what=f"{cname} = penalty({src})")
        else:
            ctx.fail("metric.source", m, ev, f"{cname}.evaluate must return its penalty function applied to `{want}`", func=f"{cname}.evaluate",
                     construct=f"{cname}: source {want}")
    # the emitter-depth metrics count gates on each emitter's own wire (reg_gate_history), on the unwrapped, identity-free copy
    for cname in EMITTER_WIRE_METRICS:
        ci = repo.cls(cname, METRICS)
        ev = ci.methods().get("evaluate")
        if ev is None:
            raise AnalysisError(f"{cname}.evaluate missing")
        ctx.touch(m, ev)
        pen = [c for c in calls_in(ev) if isinstance(c.func, ast.Attribute) and "penalty" in c.func.attr and norm(c.func.value) == "self" and c.args]
        if len(pen) != 1:
            raise AnalysisError(f"{cname}.evaluate: penalty call not found")
        anc_ = parent(pen[0])
        in_loop = None
        while anc_ is not None and anc_ is not ev:
            if isinstance(anc_, (ast.For, ast.While, ast.ListComp, ast.GeneratorExp, ast.SetComp, ast.DictComp)):
                in_loop = anc_
            anc_ = parent(anc_)
        if in_loop is not None:
            ctx.fail("metric.source", m, pen[0],
                     f"{cname}.evaluate applies the penalty function per emitter (`{short(pen[0])}` inside the loop) and aggregates the penalised values: the "
                     f"metric is penalty(max over emitters of the depth), and max_e penalty(d_e) differs from it for every penalty function that is not "
                     f"increasing (|d - d0|, d_max - d ...), which the constructor accepts", func=f"{cname}.evaluate",
                     construct=f"{cname}: penalty applied inside the per-emitter loop")
            continue
        contrib = {}
        for n in ast.walk(ev):
            if isinstance(n, ast.Assign):
                for t0 in n.targets:
                    for t in (t0.elts if isinstance(t0, (ast.Tuple, ast.List)) else [t0]):
                        b = t
                        while isinstance(b, (ast.Subscript, ast.Starred)):
                            b = b.value
                        if isinstance(b, ast.Name):
                            contrib.setdefault(b.id, []).append(n.value)
            if isinstance(n, ast.Call) and call_attr(n) in ("append", "extend") and isinstance(n.func.value, ast.Name) and n.args:
                contrib.setdefault(n.func.value.id, []).append(n.args[0])
            if isinstance(n, ast.For):
                for t in ast.walk(n.target):
                    if isinstance(t, ast.Name):
                        contrib.setdefault(t.id, []).append(n.iter)
        seen, todo, exprs = set(), [pen[0].args[0]], []
        while todo:
            e = todo.pop()
            exprs.append(e)
            for x in ast.walk(e):
                if isinstance(x, ast.Name) and x.id not in seen:
                    seen.add(x.id)
                    todo.extend(contrib.get(x.id, []))
        hist = [c for e in exprs for c in ast.walk(e) if isinstance(c, ast.Call) and call_attr(c) == "reg_gate_history"]
        # a module-level helper that receives the circuit and the emitter and reads the history there: helper(c, e_i)
        helper_hist = []
        for e in exprs:
            for hc in [x for x in ast.walk(e) if isinstance(x, ast.Call) and isinstance(x.func, ast.Name)]:
                hf = repo.try_anchor(METRICS, hc.func.id)
                if isinstance(hf, ast.FunctionDef):
                    hps = func_params(hf)
                    for ic in [x for x in ast.walk(hf) if isinstance(x, ast.Call) and call_attr(x) == "reg_gate_history"]:
                        reg_ = get_kw(ic, "reg") or (ic.args[0] if ic.args else None)
                        if isinstance(reg_, ast.Name) and reg_.id in hps and hps.index(reg_.id) < len(hc.args):
                            helper_hist.append((ic, hc.args[hps.index(reg_.id)], get_kw(ic, "reg_type")))
        other = sorted({call_attr(c) for e in exprs for c in ast.walk(e) if isinstance(c, ast.Call) and call_attr(c) in
                        ("calculate_reg_depth", "calculate_all_reg_depth", "sequence", "depth")})
        per_emitter = False
        for c in hist:
            reg = get_kw(c, "reg") or (c.args[0] if c.args else None)
            rt = get_kw(c, "reg_type") or (c.args[1] if len(c.args) > 1 else None)
            if isinstance(reg, ast.Name) and any(isinstance(it, ast.Call) and call_name(it) == "range" and it.args and norm(it.args[-1]).endswith(".n_emitters")
                                                 for it in contrib.get(reg.id, [])) and (rt is None or (isinstance(rt, ast.Constant) and rt.value == "e")):
                per_emitter = True
        for ic, actual, rt in helper_hist:
            if isinstance(actual, ast.Name) and any(isinstance(it, ast.Call) and call_name(it) == "range" and it.args and norm(it.args[-1]).endswith(".n_emitters")
                                                   for it in contrib.get(actual.id, [])) and (rt is None or (isinstance(rt, ast.Constant) and rt.value == "e")):
                per_emitter = True
                hist = hist or [ic]
        has_max = any(isinstance(c, ast.Call) and call_name(c) in ("max", "np.max") for e in exprs for c in ast.walk(e))
        prep = [call_attr(c) for c in calls_in(ev) if call_attr(c) in ("unwrap_nodes", "remove_identity")]
        early = None
        if not prep:
            # the preparation may live in a helper: c = helper(circuit).  It counts when *every* return of the helper comes after both calls.
            for hc in [x for x in calls_in(ev) if isinstance(x.func, (ast.Name, ast.Attribute)) and x.args]:
                hname = hc.func.id if isinstance(hc.func, ast.Name) else (hc.func.attr if norm(hc.func.value) == "self" else None)
                hf = repo.try_anchor(METRICS, hname) if isinstance(hc.func, ast.Name) else (ci.methods().get(hname) if hname else None)
                if not isinstance(hf, ast.FunctionDef):
                    continue
                seen_prep = []
                for st in hf.body:
                    rets = [r for r in ast.walk(st) if isinstance(r, ast.Return)]
                    if rets and seen_prep[:2] != ["unwrap_nodes", "remove_identity"] and any(call_attr(c) in ("unwrap_nodes", "remove_identity") for c in calls_in(hf)):
                        early = (hf, rets[0])
                    seen_prep += [call_attr(c) for c in calls_in(st) if call_attr(c) in ("unwrap_nodes", "remove_identity")]
                if seen_prep:
                    ctx.touch(m, hf)
                    prep = seen_prep
                    break
        if hist and per_emitter and has_max and not other:
            ctx.ok("metric.source", m, hist[0], what=f"{cname}: max over emitters of a count on the emitter's own gate history")
        else:
            why = (f"uses {other} (the DAG level of a node also counts gates on other wires that reach it through two-qubit gates or a shared classical bit)" if other
                   else "does not read reg_gate_history(reg=e) for every e in range(n_emitters)" if not (hist and per_emitter) else "does not take the maximum over emitters")
            ctx.fail("metric.source", m, pen[0], f"{cname}.evaluate {why}; the metric is defined on the gates of each emitter's own wire",
                     func=f"{cname}.evaluate", construct=f"{cname}: per-emitter gate history source")
        if early is not None:
            ctx.fail("metric.source", m, early[1], f"{cname}.evaluate prepares its circuit with `{early[0].name}`, which returns (`{short(early[1])}`, line {early[1].lineno}) "
                     f"before it has unwrapped the gate wrappers and dropped the identities: on that path identity gates are counted as gates",
                     func=f"{cname}.evaluate", construct=f"{cname}: preparation helper returns early")
        elif prep[:2] == ["unwrap_nodes", "remove_identity"]:
            ctx.ok("metric.source", m, ev, what=f"{cname}: evaluated on the unwrapped, identity-free copy")
        else:
            ctx.fail("metric.source", m, ev, f"{cname}.evaluate must unwrap the gate wrappers and then drop identities before counting (found {prep})",
                     func=f"{cname}.evaluate", construct=f"{cname}: unwrap/remove_identity preparation")
        if cname == "CircuitMaxEmitDepth":
            # len(history) - 2: the Input and Output nodes of the wire are not gates
            lens = [e for ex in exprs for e in ast.walk(ex) if isinstance(e, ast.BinOp) and isinstance(e.op, ast.Sub) and isinstance(e.left, ast.Call)
                    and call_name(e.left) == "len" and any(isinstance(c, ast.Call) and call_attr(c) == "reg_gate_history" for c in ast.walk(e.left))]
            if lens and all(isinstance(e.right, ast.Constant) and e.right.value == 2 for e in lens):
                ctx.ok("metric.source", m, lens[0], what="CircuitMaxEmitDepth: history length minus the Input and Output nodes")
            elif hist:
                ctx.fail("metric.source", m, pen[0], "CircuitMaxEmitDepth must count len(history) - 2 (the wire's Input and Output nodes are not gates)",
                         func="CircuitMaxEmitDepth.evaluate", construct="CircuitMaxEmitDepth: history length offset")
    # every cost metric returns the value it logs
    mb = repo.cls("MetricBase", METRICS)
    for ci in repo.subclasses(mb, strict=True):
        if ci.module.rel != METRICS or not ci.name.startswith("Circuit"):
            continue
        ev = ci.methods().get("evaluate")
        r = [x for x in ast.walk(ev) if isinstance(x, ast.Return) and x.value is not None]
        logged = [c for c in calls_in(ev) if call_name(c) == "self.log.append"]
        if r and logged and norm(r[-1].value) == norm(logged[0].args[0]):
            ctx.ok("metric.source", m, r[-1], what=f"{ci.name}: returns the logged value")
        else:
            ctx.fail("metric.source", m, ev, f"{ci.name}.evaluate logs one value and returns another", func=f"{ci.name}.evaluate",
                     construct=f"{ci.name}: logged vs returned")


# --------------------------------------------------------------------------- C04 conversion ops are one-qubit photon gates


def rule_conversion_ops(ctx: Ctx) -> None:
    repo = ctx.repo
    m = repo.module(LCC)
    fn = repo.anchor(LCC, "str_to_op")
    ctx.touch(m, fn)
    one = repo.cls("OneQubitOperationBase", OPS)
    classes = None
    for n in fn.body:
        if isinstance(n, ast.Assign) and isinstance(n.value, ast.List) and n.value.elts and all(isinstance(e, ast.Attribute) for e in n.value.elts):
            classes = n
    if classes is None:
        raise AnalysisError("str_to_op: class list not found")
    bad = []
    for e in classes.value.elts:
        ci = repo.resolve_class(m, dotted(e) or "")
        if ci is None or not repo.is_subclass(ci, one):
            bad.append(norm(e))
    ctor = [c for c in calls_in(fn) if isinstance(c.func, ast.Subscript) and norm(c.func.value) == norm(classes.targets[0])]
    types = {norm(get_kw(c, "reg_type")) for c in ctor}
    if not bad and ctor and types == {"'p'"}:
        ctx.ok("move.filters", m, classes, what="LC conversion gates are single-qubit gates on photons")
    else:
        ctx.fail("move.filters", m, fn,
                 f"str_to_op builds {bad or 'operations'} with reg_type {sorted(types)}; the conversion gates appended by the alternate-target "
                 f"solver must be single-qubit gates on photon registers", func="str_to_op", construct="str_to_op: conversion gate kinds")


# --------------------------------------------------------------------------- C01 kron layout (qubit position of an embedded gate)


def _subst_env(body: List[ast.stmt]) -> Dict[str, ast.AST]:
    """sequential symbolic environment of a straight-line statement list (later assignments see earlier ones)."""
    import copy as _copy
    env: Dict[str, ast.AST] = {}

    class Sub(ast.NodeTransformer):
        def visit_Name(self, node):
            if isinstance(node.ctx, ast.Load) and node.id in env:
                return _copy.deepcopy(env[node.id])
            return node

    for st in body:
        if isinstance(st, ast.Assign) and len(st.targets) == 1 and isinstance(st.targets[0], ast.Name):
            env[st.targets[0].id] = Sub().visit(_copy.deepcopy(st.value))
    return env


def _kron_factors(e: ast.AST) -> List[ast.AST]:
    if isinstance(e, ast.Call) and call_attr(e) == "kron" and len(e.args) == 2:
        return _kron_factors(e.args[0]) + _kron_factors(e.args[1])
    return [e]


def _eye_exponent(e: ast.AST) -> Optional[linear.Lin]:
    """np.eye(2**k) / np.identity(2**k) -> linear form of k;  np.eye(2) / np.identity(2) -> None (a one-qubit factor)."""
    if isinstance(e, ast.Call) and call_attr(e) in ("eye", "identity") and len(e.args) == 1:
        a = e.args[0]
        if isinstance(a, ast.BinOp) and isinstance(a.op, ast.Pow) and isinstance(a.left, ast.Constant) and a.left.value == 2:
            return linear.lin(a.right)
    return None


def _layout(factors: List[ast.AST], roles: Dict[str, str]):
    """-> (positions: role -> linear form of the qubit index, total qubits as linear form, unknown factors)"""
    pos: linear.Lin = {"": 0}
    out: Dict[str, linear.Lin] = {}
    unknown = []
    for f in factors:
        k = _eye_exponent(f)
        if k is not None:
            pos = linear._add(pos, k, 1)
            continue
        t = norm(f)
        role = None
        for pat, r in roles.items():
            if pat in t:
                role = r
        if role is None:
            unknown.append(t)
        else:
            out[role] = dict(pos)
        pos = linear._add(pos, {"": 1}, 1)
    return out, pos, unknown


def rule_kron_layout(ctx: Ctx) -> None:
    repo = ctx.repo
    m = repo.module(DMF)
    # one-qubit embedding
    fn = repo.anchor(DMF, "get_one_qubit_gate")
    ctx.touch(m, fn)
    n, q, g = func_params(fn)[:3]
    env = _subst_env(fn.body)
    ret = [r for r in fn.body if isinstance(r, ast.Return)]
    expr = env.get(norm(ret[-1].value), ret[-1].value) if ret else None
    if expr is None:
        raise AnalysisError("get_one_qubit_gate: return not found")
    where, total, unk = _layout(_kron_factors(expr), {g: "gate"})
    if not unk and linear.equal(where.get("gate"), {q: 1}) and linear.equal(total, {n: 1}):
        ctx.ok("kron.layout", m, ret[-1], what="one-qubit gate embedded at qubit_position, total n_qubits")
    else:
        ctx.fail("kron.layout", m, fn,
                 f"get_one_qubit_gate places the gate at tensor position {linear.show(where.get('gate', {}))} of {linear.show(total)} qubits; "
                 f"it must be position `{q}` of `{n}` (identity on 2**{q} before, 2**({n}-{q}-1) after)", func="get_one_qubit_gate",
                 construct=f"get_one_qubit_gate: position {linear.show(where.get('gate', {}))} of {linear.show(total)}")
    # controlled gate: both orderings
    fn = repo.anchor(DMF, "get_two_qubit_controlled_gate")
    ctx.touch(m, fn)
    n, c, t, g = func_params(fn)[:4]
    brs = [x for x in fn.body if isinstance(x, ast.If)]
    if not brs:
        raise AnalysisError("get_two_qubit_controlled_gate: ordering branches not found")
    from ..chains import chain_of
    seen = 0
    for test, body, node in chain_of(brs[0]):
        if test is None or any(isinstance(s, ast.Raise) for s in body):
            continue
        env = _subst_env(body)
        var = [k for k in env if isinstance(env[k], ast.Call) and call_attr(env[k]) == "kron"]
        # the chain is whatever the branch binds *last* (intermediate factors may have been given names of their own)
        last = [st.targets[0].id for st in body if isinstance(st, ast.Assign) and len(st.targets) == 1 and isinstance(st.targets[0], ast.Name) and st.targets[0].id in var]
        if not var or not last:
            raise AnalysisError("get_two_qubit_controlled_gate: kron chain not found in a branch")
        where, total, unk = _layout(_kron_factors(env[last[-1]]), {"sigmaz()": "control", g: "target"})
        seen += 1
        ok = not unk and linear.equal(where.get("control"), {c: 1}) and linear.equal(where.get("target"), {t: 1}) and linear.equal(total, {n: 1})
        if ok:
            ctx.ok("kron.layout", m, node, what=f"branch `{norm(test)}`: (I-Z) at control, (G-I) at target, total n_qubits")
        else:
            ctx.fail("kron.layout", m, node,
                     f"in the `{norm(test)}` branch the projector factor sits at tensor position {linear.show(where.get('control', {}))} and the gate "
                     f"factor at {linear.show(where.get('target', {}))} of {linear.show(total)} qubits (unrecognised: {unk}); they must sit at "
                     f"`{c}` and `{t}` of `{n}`", func="get_two_qubit_controlled_gate",
                     construct=f"get_two_qubit_controlled_gate[{norm(test)}]: control@{linear.show(where.get('control', {}))} target@{linear.show(where.get('target', {}))}")
    if seen != 2:
        raise AnalysisError("get_two_qubit_controlled_gate: expected two ordering branches")
    fin = [s for s in fn.body if isinstance(s, ast.Assign) and isinstance(s.value, ast.BinOp) and isinstance(s.value.op, ast.Add)]
    good = False
    if fin:
        l, r = fin[-1].value.left, fin[-1].value.right
        good = _eye_exponent(l) is not None and linear.equal(_eye_exponent(l), {n: 1}) and isinstance(r, ast.BinOp) and isinstance(r.op, ast.Div) \
            and isinstance(r.right, ast.Constant) and r.right.value == 2
    if good:
        ctx.ok("kron.layout", m, fin[-1], what="I + (I-Z)(x)(G-I)/2 = |0><0|(x)I + |1><1|(x)G")
    else:
        ctx.fail("kron.layout", m, fn, "the controlled gate is no longer assembled as identity + ((I - Z) (x) (G - I)) / 2", func="get_two_qubit_controlled_gate",
                 construct="get_two_qubit_controlled_gate: final assembly")
    # measurement projectors: P_k at the measured register, identities elsewhere, returned as [P0, P1]
    fn = repo.anchor(DMF, "projectors_zbasis")
    ctx.touch(m, fn)
    n, r_ = func_params(fn)[:2]
    projs = {}
    for st in fn.body:
        if isinstance(st, ast.Assign) and isinstance(st.value, ast.Call) and call_attr(st.value) == "reduce" and len(st.value.args) == 2 \
                and isinstance(st.value.args[1], ast.ListComp):
            lc = st.value.args[1]
            e = lc.elt
            it = lc.generators[0]
            if isinstance(e, ast.IfExp) and norm(e.test) in (f"{norm(it.target)} == {r_}", f"{r_} == {norm(it.target)}") \
                    and norm(it.iter) == f"range({n})" and call_attr(e.orelse) in ("identity", "eye") and norm(st.value.args[0]).endswith("kron"):
                projs[norm(st.targets[0])] = call_attr(e.body)
    ret = [x for x in fn.body if isinstance(x, ast.Return)]
    order_ok = ret and isinstance(ret[0].value, ast.List) and [projs.get(norm(x)) for x in ret[0].value.elts] == ["projector_ketz0", "projector_ketz1"]
    if order_ok:
        ctx.ok("kron.layout", m, ret[0], what="projectors [P0, P1] at the measured register")
    else:
        ctx.fail("kron.layout", m, fn, "projectors_zbasis must return [P0, P1] with projector_ketz0 / projector_ketz1 at position measure_register "
                                       "and identities elsewhere (apply_measurement indexes the list by outcome)", func="projectors_zbasis",
                 construct="projectors_zbasis: layout / order")



# --------------------------------------------------------------------------- C08 canonical comparison, node order


def rule_canon_compare(ctx: Ctx) -> None:
    """canon.compare: the sign vectors of two stabilizer tableaux are subtracted / compared only when BOTH tableaux were brought
    to canonical form first — the order of generators (hence which sign belongs to which entry) is otherwise arbitrary."""
    repo = ctx.repo
    n = 0
    for rel in (SRC, LCC):
        m = repo.module(rel)
        for fn in m.functions():
            canon = set()
            for st in ast.walk(fn):
                if isinstance(st, ast.Assign) and isinstance(st.value, ast.Call) and call_attr(st.value) == "canonical_form" \
                        and isinstance(st.targets[0], ast.Name):
                    canon.add(st.targets[0].id)
            other = {st.targets[0].id for st in ast.walk(fn) if isinstance(st, ast.Assign) and isinstance(st.targets[0], ast.Name)
                     and not (isinstance(st.value, ast.Call) and call_attr(st.value) == "canonical_form")}
            for node in ast.walk(fn):
                pair = None
                if isinstance(node, ast.BinOp) and isinstance(node.op, (ast.Sub, ast.BitXor, ast.Add)):
                    pair = (node.left, node.right)
                elif isinstance(node, ast.Compare) and len(node.ops) == 1 and isinstance(node.ops[0], (ast.Eq, ast.NotEq)):
                    pair = (node.left, node.comparators[0])
                if pair is None:
                    continue
                owners = []
                for e in pair:
                    if isinstance(e, ast.Attribute) and e.attr in ("phase", "_phase") and isinstance(e.value, ast.Name):
                        owners.append(e.value.id)
                    elif isinstance(e, ast.Name) and (e.id in canon or "tab" in e.id) and isinstance(node, ast.Compare):
                        owners.append(e.id)
                if len(owners) != 2 or owners[0] == owners[1]:
                    continue
                if not all(o in canon or o in other for o in owners):
                    continue
                n += 1
                ctx.touch(m, fn)
                loose = [o for o in owners if o not in canon or (o in other and o not in canon)]
                # a name assigned both ways counts as loose only if its last assignment before this node is not canonical_form
                def last_is_canon(name):
                    best = None
                    for st in ast.walk(fn):
                        if isinstance(st, ast.Assign) and isinstance(st.targets[0], ast.Name) and st.targets[0].id == name and st.lineno <= node.lineno:
                            if best is None or st.lineno > best.lineno:
                                best = st
                    return best is not None and isinstance(best.value, ast.Call) and call_attr(best.value) == "canonical_form"
                loose = [o for o in owners if not last_is_canon(o)]
                if len(loose) == 2:
                    continue  # a deliberate raw comparison of two presentations (neither side claims canonical form)
                if loose:
                    ctx.fail("canon.compare", m, node,
                             f"`{short(node, 90)}` combines the signs / generators of `{owners[0]}` and `{owners[1]}`, but {loose} was not brought to "
                             f"canonical form first: the i-th sign of one tableau is matched with a different generator of the other, so the "
                             f"computed sign correction is wrong for some states", func=qualname(fn),
                             construct=f"{qualname(fn)}: {owners[0]} vs {owners[1]} without canonical_form on {loose}")
                else:
                    ctx.ok("canon.compare", m, node)
    if n == 0:
        raise AnalysisError("canon.compare: no tableau sign comparison found")


def rule_node_order(ctx: Ctx) -> None:
    """node.order: every graph -> state conversion indexes qubits by the graph's own node order (what nx.to_numpy_array uses by
    default); a conversion that sorts the nodes, or passes its own nodelist, disagrees with its siblings for graphs whose nodes
    were not inserted in sorted order."""
    repo = ctx.repo
    n = 0
    for rel in (SRC, RC, "graphiq/backends/density_matrix/state.py", "graphiq/backends/graph/state.py", "graphiq/state.py"):
        m = repo.module(rel)
        for fn in m.functions():
            for c in calls_in(fn, nested=False):
                a = call_attr(c)
                if a in ("to_numpy_array", "adjacency_matrix", "to_scipy_sparse_array"):
                    n += 1
                    nl = get_kw(c, "nodelist")

                    def own_order(e, depth=0):
                        """None, or the node order of a graph as it stands: list(G.nodes), G.nodes(), [*G.nodes] — through local names"""
                        if isinstance(e, ast.Constant) and e.value is None:
                            return True
                        t = norm(e)
                        if t.endswith(".nodes") or t.endswith(".nodes()"):
                            return True
                        if isinstance(e, ast.Call) and isinstance(e.func, ast.Name) and e.func.id in ("list", "tuple") and len(e.args) == 1:
                            return own_order(e.args[0], depth + 1)
                        if isinstance(e, ast.List) and len(e.elts) == 1 and isinstance(e.elts[0], ast.Starred):
                            return own_order(e.elts[0].value, depth + 1)
                        if isinstance(e, ast.IfExp):
                            return own_order(e.body, depth + 1) and own_order(e.orelse, depth + 1)
                        if isinstance(e, ast.Name) and depth < 3:
                            binds = [a.value for a in ast.walk(fn) if isinstance(a, ast.Assign) and any(isinstance(t_, ast.Name) and t_.id == e.id for t_ in a.targets)]
                            return bool(binds) and all(own_order(b, depth + 1) for b in binds)
                        return False
                    if nl is not None and not own_order(nl):
                        ctx.fail("node.order", m, c, f"`{short(c)}` fixes its own node order; sibling conversions use the graph's node order",
                                 func=qualname(fn), construct=f"{qualname(fn)}: nodelist={short(nl, 40)}")
                    else:
                        ctx.ok("node.order", m, c)
                if isinstance(c.func, ast.Name) and c.func.id == "sorted" and c.args and ("nodes" in norm(c.args[0])):
                    n += 1
                    ctx.fail("node.order", m, c,
                             f"{qualname(fn)} orders the graph's nodes with `{short(c)}`; graph_to_stabilizer, density_to_graph and the adjacency "
                             f"matrices use the graph's own node order, so the representations describe different states for a graph whose nodes "
                             f"were not inserted in sorted order", func=qualname(fn), construct=f"{qualname(fn)}: sorts the graph nodes")
    fn = repo.anchor(SRC, "_graph_to_density_pure")
    m = repo.module(SRC)
    from ..core import deref as _deref
    mp = [st for st in ast.walk(fn) if isinstance(st, ast.Assign) and isinstance(st.value, ast.Call) and call_attr(st.value) == "dict"
          and st.value.args and isinstance(_deref(fn, st.value.args[0]), ast.Call) and call_attr(_deref(fn, st.value.args[0])) == "zip"]
    ok = False
    if mp:
        z = _deref(fn, mp[0].value.args[0])
        ok = len(z.args) == 2 and norm(z.args[0]).endswith(".nodes()") and norm(z.args[1]).startswith("range(")
    n += 1
    if ok:
        ctx.ok("node.order", m, mp[0], what="qubit index = position in graph.nodes()")
    else:
        ctx.fail("node.order", m, fn, "_graph_to_density_pure must map node -> qubit as dict(zip(graph.nodes(), range(n))), the order every other "
                                      "conversion uses", func="_graph_to_density_pure", construct="_graph_to_density_pure: node -> qubit mapping")
    if n < 5:
        raise AnalysisError("node.order: too few sites")


# --------------------------------------------------------------------------- index.bit-order


def rule_bit_order(ctx: Ctx, rels: List[str]) -> None:
    """index.bit-order: the density-matrix backend lays qubits out with np.kron, qubit 0 first, so in a computational-basis index b the bit
    of qubit q is (b >> (n - 1 - q)) & 1.  A shift of a basis index by the bare qubit position reads the qubit mirrored in the register
    (q <-> n - 1 - q): right for symmetric pairs and two-qubit registers, wrong otherwise."""
    repo = ctx.repo
    scanned = hits = 0
    for rel in rels:
        m = repo.module(rel)
        for fn in [f for f in ast.walk(m.tree) if isinstance(f, ast.FunctionDef)]:
            scanned += 1
            params = set(func_params(fn))
            defs = {}
            for a in ast.walk(fn):
                if isinstance(a, ast.Assign) and len(a.targets) == 1 and isinstance(a.targets[0], ast.Name):
                    defs[a.targets[0].id] = a.value

            def is_basis(e, depth=0):
                if depth > 3:
                    return False
                if isinstance(e, ast.Name) and e.id in defs:
                    return is_basis(defs[e.id], depth + 1)
                if isinstance(e, ast.Call) and (call_name(e) or "") in ("np.arange", "range", "np.indices") and e.args:
                    return any(isinstance(x, ast.BinOp) and isinstance(x.op, ast.Pow) and isinstance(x.left, ast.Constant) and x.left.value == 2 for x in ast.walk(e.args[-1])) \
                        or any(isinstance(x, ast.BinOp) and isinstance(x.op, ast.LShift) for x in ast.walk(e.args[-1]))
                if isinstance(e, ast.Subscript):
                    return is_basis(e.value, depth + 1)
                return False
            for x in ast.walk(fn):
                if isinstance(x, ast.BinOp) and isinstance(x.op, ast.RShift) and is_basis(x.left):
                    hits += 1
                    ctx.touch(m, fn)
                    l = linear.lin(x.right, defs) if hasattr(linear, "lin") else None
                    qs = [k for k in (l or {}) if k in params and ("qubit" in k or "position" in k or "control" in k or "target" in k or "register" in k)]
                    ns = [k for k in (l or {}) if k and (k.startswith("n_") or k in ("n", "n_qubits", "num_qubits")) and (l or {}).get(k) == 1]
                    if l is not None and qs and all(l[k] == -1 for k in qs) and ns:
                        ctx.ok("index.bit-order", m, x, what="bit of qubit q read at n - 1 - q")
                    elif l is not None and qs and any(l[k] == 1 for k in qs):
                        ctx.fail("index.bit-order", m, x,
                                 f"`{short(x)}` reads the bit of qubit `{qs[0]}` at position `{short(x.right)}` counted from the least significant end; the "
                                 f"backend's np.kron layout puts qubit 0 in the most significant bit, so this addresses qubit n - 1 - {qs[0]}",
                                 func=qualname_of(fn), construct=f"{qualname_of(fn)}: {short(x, 60)}")
    ctx.ok_abstract("index.bit-order", f"{scanned} functions scanned, {hits} shifts of a computational-basis index")


def qualname_of(fn):
    from ..core import qualname
    return qualname(fn)


def rule_reset_depth_model(ctx: Ctx) -> None:
    """metric.reset-model: CircuitMaxEmitResetDepth is, per emitter, the longest stretch between two consecutive re-initialisations of the
    emitter — its Input node, every MeasurementCNOTandReset on it, its Output node — measured in positions of the emitter's gate history.
    The per-emitter loop body of evaluate() is interpreted (gqsa/minterp.py) on every history Input, x1..xk, Output with k <= 4 and
    x_i in {gate, MeasurementCNOTandReset, ClassicalCNOT}; the value it stores for the emitter must equal the longest interval."""
    import itertools
    from .. import minterp
    repo = ctx.repo
    m = repo.module(METRICS)
    ev = repo.cls("CircuitMaxEmitResetDepth", METRICS).methods().get("evaluate")
    if ev is None:
        raise AnalysisError("CircuitMaxEmitResetDepth.evaluate missing")
    ctx.touch(m, ev)
    loops = [l for l in ev.body if isinstance(l, ast.For) and isinstance(l.iter, ast.Call) and call_name(l.iter) == "range" and l.iter.args
             and norm(l.iter.args[-1]).endswith(".n_emitters") and isinstance(l.target, ast.Name)]
    if len(loops) != 1:
        raise AnalysisError("CircuitMaxEmitResetDepth.evaluate: the per-emitter loop was not found at the top level")
    lp = loops[0]
    ev_var = lp.target.id
    stores = [a for a in ast.walk(lp) if isinstance(a, ast.Assign) and isinstance(a.targets[0], ast.Subscript) and norm(a.targets[0].slice) == ev_var]
    if len(stores) != 1 or not isinstance(stores[0].targets[0].value, ast.Name):
        raise AnalysisError("CircuitMaxEmitResetDepth.evaluate: the per-emitter result store was not found")
    D = stores[0].targets[0].value.id
    # a penalty applied inside the loop is reported by metric.source; here it is read as the identity
    names = {"G": "Hadamard", "M": "MeasurementCNOTandReset", "K": "ClassicalCNOT"}

    class _I(minterp.Interp):
        def ev(self, e):
            if isinstance(e, ast.Attribute) and e.attr == "__name__" and isinstance(e.value, ast.Call) and call_name(e.value) == "type" and len(e.value.args) == 1:
                return self.ev(e.value.args[0])
            return super().ev(e)
    n_models = 0
    for k in range(0, 5):
        for mid in itertools.product("GMK", repeat=k):
            hist = ["Input"] + [names[x] for x in mid] + ["Output"]
            cuts = [i for i, t_ in enumerate(hist) if t_ in ("Input", "MeasurementCNOTandReset", "Output")]
            want = max(b - a for a, b in zip(cuts, cuts[1:]))

            def oracle(c, it, hist=hist):
                if call_attr(c) == "reg_gate_history":
                    return [list(hist), list(range(len(hist)))]
                if isinstance(c.func, ast.Attribute) and "penalty" in c.func.attr and len(c.args) == 1:
                    return it.ev(c.args[0])
                return NotImplemented
            env = {ev_var: 0, D: {}}
            try:
                _I(env, oracle).run(lp.body)
            except minterp.Unmodelled as e:
                raise AnalysisError(f"CircuitMaxEmitResetDepth.evaluate: the per-emitter loop is not decidable on the history model ({e})")
            except minterp.ModelError as e:
                ctx.fail("metric.reset-model", m, lp, f"CircuitMaxEmitResetDepth.evaluate fails on the emitter history {hist}: {e}", func="CircuitMaxEmitResetDepth.evaluate",
                         construct="CircuitMaxEmitResetDepth: fails on the history model")
                return
            n_models += 1
            got = env[D].get(0) if isinstance(env.get(D), dict) else None
            if got != want:
                ctx.fail("metric.reset-model", m, stores[0],
                         f"CircuitMaxEmitResetDepth.evaluate gives {got} for the emitter history {hist}: the re-initialisations are at positions {cuts}, so the longest "
                         f"stretch between two consecutive ones is {want}", func="CircuitMaxEmitResetDepth.evaluate",
                         construct="CircuitMaxEmitResetDepth: wrong on the history model")
                return
    ctx.ok("metric.reset-model", m, lp, what=f"{n_models} emitter histories: longest interval between consecutive re-initialisations")
