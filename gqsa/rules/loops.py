"""Loop-carried state: a small reaching-definitions analysis over structured statements, and the rules built on it.

acc.fresh     — a scratch accumulator that collects a product of generators *for one loop iteration* must not carry the
                product of an earlier iteration into the next one (inner_product: the row compared with generator i of the
                second state is the product of exactly the generators selected for i).
pivot.choice  — inverse_circuit's Hadamard block: in a column that holds only Pauli Z, the generator moved to the pivot row is
                the bottom-most candidate (in a canonical-form tableau that is the Z-block row; an X-block row would receive
                the Hadamard and leave a later column without a diagonal generator).
"""
from __future__ import annotations

import ast
from typing import Dict, FrozenSet, List, Optional, Set, Tuple

from ..core import AnalysisError, call_attr, call_name, calls_in, norm, short
from ..report import Ctx

PREV = "<entry>"
State = Optional[Dict[str, FrozenSet[object]]]  # None = unreachable


def _join(a: State, b: State) -> State:
    if a is None:
        return b
    if b is None:
        return a
    out = dict(a)
    for k, v in b.items():
        out[k] = out.get(k, frozenset([PREV])) | v
    for k in a:
        if k not in b:
            out[k] = a[k] | frozenset([PREV])
    return out


def _names(t: ast.AST) -> Tuple[List[str], List[str]]:
    """(strongly assigned names, weakly updated names) of an assignment target"""
    if isinstance(t, ast.Name):
        return [t.id], []
    if isinstance(t, (ast.Tuple, ast.List)):
        s, w = [], []
        for e in t.elts:
            a, b = _names(e)
            s += a
            w += b
        return s, w
    if isinstance(t, ast.Starred):
        return _names(t.value)
    if isinstance(t, (ast.Subscript, ast.Attribute)):
        b = t
        while isinstance(b, (ast.Subscript, ast.Attribute)):
            b = b.value
        return [], ([b.id] if isinstance(b, ast.Name) else [])
    return [], []


class ReachingDefs:
    """Reaching definitions for one loop body, entered with every variable bound to PREV (whatever reaches the loop head)."""

    def __init__(self, loop: ast.For):
        self.loop = loop
        self.at: Dict[int, State] = {}  # id(stmt or call-bearing stmt) -> state before it
        self._cont: List[State] = []
        self._brk: List[State] = []
        st: State = {}
        for n in _names(loop.target)[0]:
            st[n] = frozenset([loop])
        end = self._block(loop.body, st)
        for c in self._cont:
            end = _join(end, c)
        self.end: State = end

    def get(self, state: State, var: str) -> FrozenSet[object]:
        if state is None:
            return frozenset()
        return state.get(var, frozenset([PREV]))

    def _assign(self, st: Dict, targets: List[ast.AST], node: ast.AST) -> Dict:
        st = dict(st)
        for t in targets:
            s, w = _names(t)
            for n in s:
                st[n] = frozenset([node])
            for n in w:
                st[n] = st.get(n, frozenset([PREV])) | frozenset([node])
        return st

    def _block(self, body: List[ast.stmt], st: State) -> State:
        for s in body:
            if st is None:
                return None
            st = self._stmt(s, st)
        return st

    def _loop(self, node, st: State, target=None) -> State:
        saved_c, saved_b = self._cont, self._brk
        entry = st
        for _ in range(20):
            self._cont, self._brk = [], []
            cur = dict(entry)
            if target is not None:
                cur = self._assign(cur, [target], node)
            out = self._block(node.body, cur)
            for c in self._cont:
                out = _join(out, c) if out is not None or c is not None else None
            new_entry = _join(entry, out) if out is not None else entry
            if new_entry == entry:
                break
            entry = new_entry
        after = entry
        for b in self._brk:
            after = _join(after, b)
        self._cont, self._brk = saved_c, saved_b
        if node.orelse:
            after = self._block(node.orelse, after)
        return after

    def _stmt(self, s: ast.stmt, st: Dict) -> State:
        self.at[id(s)] = st
        if isinstance(s, ast.Assign):
            return self._assign(st, s.targets, s)
        if isinstance(s, ast.AnnAssign):
            return self._assign(st, [s.target], s) if s.value is not None else st
        if isinstance(s, ast.AugAssign):
            return self._assign(st, [s.target], s)
        if isinstance(s, ast.If):
            a = self._block(s.body, dict(st))
            b = self._block(s.orelse, dict(st))
            if a is None and b is None:
                return None
            if a is None:
                return b
            if b is None:
                return a
            out = {}
            for k in set(a) | set(b):
                out[k] = a.get(k, st.get(k, frozenset([PREV]))) | b.get(k, st.get(k, frozenset([PREV])))
            return out
        if isinstance(s, ast.For):
            return self._loop(s, st, s.target)
        if isinstance(s, ast.While):
            return self._loop(s, st)
        if isinstance(s, (ast.Return, ast.Raise)):
            return None
        if isinstance(s, ast.Continue):
            self._cont.append(st)
            return None
        if isinstance(s, ast.Break):
            self._brk.append(st)
            return None
        if isinstance(s, ast.With):
            for it in s.items:
                if it.optional_vars is not None:
                    st = self._assign(st, [it.optional_vars], s)
            return self._block(s.body, st)
        if isinstance(s, ast.Try):
            a = self._block(s.body, dict(st))
            out = a
            for h in s.handlers:
                out = _join(out, self._block(h.body, _join(dict(st), a)))
            if s.orelse and out is not None:
                out = self._block(s.orelse, out)
            if s.finalbody and out is not None:
                out = self._block(s.finalbody, out)
            return out
        return st


def _stmt_of(fn: ast.AST, node: ast.AST) -> ast.stmt:
    """innermost simple statement of `fn` that contains `node`"""
    best = None
    for s in ast.walk(fn):
        if isinstance(s, ast.stmt) and not isinstance(s, (ast.For, ast.While, ast.If, ast.With, ast.Try, ast.FunctionDef)):
            if any(x is node for x in ast.walk(s)):
                best = s
    if best is None:
        raise AnalysisError(f"statement containing {short(node)} not found")
    return best


def _is_accumulated(d: object, var: str) -> bool:
    """a definition that builds on an earlier value of the same variable (x = f(x, ...), x += ..., x[i] = ...)"""
    if d is PREV or isinstance(d, ast.For):
        return False
    if isinstance(d, ast.AugAssign):
        return True
    if isinstance(d, ast.Assign):
        s, w = [], []
        for t in d.targets:
            a, b = _names(t)
            s += a
            w += b
        if var in w:
            return True
        return any(isinstance(x, ast.Name) and x.id == var for x in ast.walk(d.value))
    return True


def rule_acc_fresh(ctx: Ctx, rel: str, qual: str, acc_callee: str = "row_sum") -> None:
    repo = ctx.repo
    m = repo.module(rel)
    fn = repo.anchor(rel, qual)
    ctx.touch(m, fn)
    outer = [s for s in fn.body if isinstance(s, ast.For)]
    sites = 0
    for loop in outer:
        calls = [c for c in calls_in(loop) if (call_attr(c) or call_name(c)) == acc_callee]
        if not calls:
            continue
        rd = ReachingDefs(loop)
        for c in calls:
            st = rd.at.get(id(_stmt_of(loop, c)))
            if st is None:
                raise AnalysisError(f"{qual}: no flow state at the {acc_callee} call")
            for a in list(c.args) + [k.value for k in c.keywords]:
                if not isinstance(a, ast.Name):
                    continue
                sites += 1
                reaching = rd.get(st, a.id)
                if PREV not in reaching:
                    ctx.ok("acc.fresh", m, c, what=f"{qual}: `{a.id}` given to {acc_callee} is rebuilt in the same iteration of `{short(loop.target)}`")
                    continue
                carried = [d for d in rd.get(rd.end, a.id) if _is_accumulated(d, a.id)]
                if carried:
                    ctx.fail("acc.fresh", m, c,
                             f"{qual}: `{a.id}` reaches {acc_callee} from the previous iteration of the `for {short(loop.target)}` loop still holding "
                             f"`{short(carried[0], 70)}`: the row accumulated for generator {short(loop.target)} also contains the generators multiplied in "
                             f"for earlier ones, so the sign/orthogonality test compares the wrong product",
                             func=qual, construct=f"{qual}: {a.id} carried across iterations into {acc_callee}")
                else:
                    ctx.ok("acc.fresh", m, c, what=f"{qual}: `{a.id}` enters each iteration un-accumulated")
    if sites == 0:
        raise AnalysisError(f"{qual}: no {acc_callee} accumulation inside a top-level loop (anchor moved?)")


# --------------------------------------------------------------------------------------------------------------- pivot.choice


def _is_last_of(sel: ast.AST, lst: str) -> Optional[bool]:
    """does `sel` select the last element of list `lst`?  None = not a selection from lst at all"""
    if isinstance(sel, ast.Subscript) and isinstance(sel.value, ast.Name) and sel.value.id == lst:
        i = sel.slice
        if isinstance(i, ast.UnaryOp) and isinstance(i.op, ast.USub) and isinstance(i.operand, ast.Constant):
            return i.operand.value == 1
        if isinstance(i, ast.Constant):
            return False
        if norm(i) in (f"len({lst}) - 1", f"-1 + len({lst})"):
            return True
        return False
    if isinstance(sel, ast.Call):
        if call_name(sel) == "max" and len(sel.args) == 1 and norm(sel.args[0]) == lst:
            return True
        if call_name(sel) == "min" and len(sel.args) == 1 and norm(sel.args[0]) == lst:
            return False
        if call_attr(sel) == "pop" and norm(sel.func.value) == lst:
            return not sel.args or norm(sel.args[0]) == "-1"
    return None


def rule_pivot_choice(ctx: Ctx, rel: str) -> None:
    repo = ctx.repo
    m = repo.module(rel)
    fn = repo.anchor(rel, "inverse_circuit")
    finder = repo.anchor(rel, "pauli_type_finder")
    ctx.touch(m, fn)
    ctx.touch(m, finder)
    # pauli_type_finder: three lists filled by append while scanning rows upwards; returned as (x, y, z)
    ret = [r for r in ast.walk(finder) if isinstance(r, ast.Return)]
    if len(ret) != 1 or not isinstance(ret[0].value, ast.Tuple) or len(ret[0].value.elts) != 3:
        raise AnalysisError("pauli_type_finder: return shape not (x_list, y_list, z_list)")
    scan = [s for s in finder.body if isinstance(s, ast.For)]
    asc = (len(scan) == 1 and isinstance(scan[0].iter, ast.Call) and call_name(scan[0].iter) == "range" and len(scan[0].iter.args) == 2
           and all((call_attr(c) != "insert") for c in calls_in(scan[0])))
    if not asc:
        ctx.fail("pivot.choice", m, finder, "pauli_type_finder no longer collects candidate rows by appending over an ascending range: "
                                            "the first/last element of its lists is not the top/bottom-most row", func="pauli_type_finder",
                 construct="pauli_type_finder: ascending scan")
    else:
        ctx.ok("pivot.choice", m, scan[0], what="pauli_type_finder lists are in ascending row order")
    # in inverse_circuit: x, y, z = pauli_type_finder(...)
    binds = [s for s in ast.walk(fn) if isinstance(s, ast.Assign) and isinstance(s.value, ast.Call) and call_name(s.value) == "pauli_type_finder"]
    if len(binds) != 1 or not isinstance(binds[0].targets[0], ast.Tuple) or len(binds[0].targets[0].elts) != 3:
        raise AnalysisError("inverse_circuit: pauli_type_finder result is not unpacked into three lists")
    xl, yl, zl = [e.id for e in binds[0].targets[0].elts]
    env = {}
    for s in ast.walk(fn):
        if isinstance(s, ast.Assign) and len(s.targets) == 1 and isinstance(s.targets[0], ast.Name):
            env[s.targets[0].id] = s.value
    had = None
    for s in fn.body:
        if isinstance(s, ast.For) and any(x is binds[0] for x in ast.walk(s)):
            had = s
    if had is None:
        raise AnalysisError("inverse_circuit: Hadamard block loop not found")
    swaps = [c for c in calls_in(had) if call_name(c) == "tab_row_swap" and len(c.args) == 3]
    if not swaps:
        raise AnalysisError("inverse_circuit: no pivot row swap in the Hadamard block")
    seen_z = False
    for c in swaps:
        sel = c.args[2]
        # which candidate lists can this selection draw from?
        src = sel
        base = None
        if isinstance(sel, ast.Subscript) and isinstance(sel.value, ast.Name):
            base = sel.value.id
        elif isinstance(sel, ast.Call) and sel.args and isinstance(sel.args[0], ast.Name):
            base = sel.args[0].id
        elif isinstance(sel, ast.Call) and call_attr(sel) == "pop" and isinstance(sel.func.value, ast.Name):
            base = sel.func.value.id
        if base is None:
            raise AnalysisError(f"inverse_circuit: pivot selection `{short(sel)}` not recognised")
        lists = {base}
        if base not in (xl, yl, zl):
            e = env.get(base)
            if e is None:
                raise AnalysisError(f"inverse_circuit: pivot candidates `{base}` not resolved")
            lists = {n.id for n in ast.walk(e) if isinstance(n, ast.Name) and n.id in (xl, yl, zl)}
            if not lists:
                raise AnalysisError(f"inverse_circuit: pivot candidates `{base}` = `{short(e)}` do not come from pauli_type_finder")
        if zl in lists:
            seen_z = True
            last = _is_last_of(sel, base)
            if last:
                ctx.ok("pivot.choice", m, c, what="Z-only column: bottom-most candidate row becomes the pivot")
            else:
                ctx.fail("pivot.choice", m, c,
                         f"inverse_circuit moves `{short(sel)}` to the pivot row when the column holds only Pauli Z (candidates {sorted(lists)}): that "
                         f"is not the bottom-most candidate, so an X-block row of the canonical form (pivot further right) can be taken, receives the "
                         f"Hadamard, and a later column is left without a diagonal generator — the returned gate list no longer maps the state to |0..0>",
                         func="inverse_circuit", construct="inverse_circuit: Z-only pivot is not the last candidate")
        else:
            ok = _is_last_of(sel, base)
            if ok is None:
                raise AnalysisError(f"inverse_circuit: pivot selection `{short(sel)}` not recognised")
            ctx.ok("pivot.choice", m, c, what=f"pivot from {sorted(lists)}")
    if not seen_z:
        ctx.fail("pivot.choice", m, had, "inverse_circuit's Hadamard block has no pivot step for a column that holds only Pauli Z", func="inverse_circuit",
                 construct="inverse_circuit: Z-only column unhandled")
