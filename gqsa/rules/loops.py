"""Loop-carried state: a small reaching-definitions analysis over structured statements, and the rules built on it.

acc.fresh     — a scratch accumulator that collects a product of generators *for one loop iteration* must not carry the
                product of an earlier iteration into the next one (inner_product: the row compared with generator i of the
                second state is the product of exactly the generators selected for i).
pivot.choice  — inverse_circuit's Hadamard block: in a column that holds only Pauli Z, the generator moved to the pivot row is
                the bottom-most candidate (in a canonical-form tableau that is the Z-block row; an X-block row would receive
                the Hadamard and leave a later column without a diagonal generator).
"""
from __future__ import annotations

import ast
from typing import Dict, FrozenSet, List, Optional, Set, Tuple

from ..core import AnalysisError, call_attr, call_name, calls_in, norm, parent, short
from ..report import Ctx

PREV = "<entry>"
State = Optional[Dict[str, FrozenSet[object]]]  # None = unreachable


def _join(a: State, b: State) -> State:
    if a is None:
        return b
    if b is None:
        return a
    out = dict(a)
    for k, v in b.items():
        out[k] = out.get(k, frozenset([PREV])) | v
    for k in a:
        if k not in b:
            out[k] = a[k] | frozenset([PREV])
    return out


def _names(t: ast.AST) -> Tuple[List[str], List[str]]:
    """(strongly assigned names, weakly updated names) of an assignment target"""
    if isinstance(t, ast.Name):
        return [t.id], []
    if isinstance(t, (ast.Tuple, ast.List)):
        s, w = [], []
        for e in t.elts:
            a, b = _names(e)
            s += a
            w += b
        return s, w
    if isinstance(t, ast.Starred):
        return _names(t.value)
    if isinstance(t, (ast.Subscript, ast.Attribute)):
        b = t
        while isinstance(b, (ast.Subscript, ast.Attribute)):
            b = b.value
        return [], ([b.id] if isinstance(b, ast.Name) else [])
    return [], []


class ReachingDefs:
    """Reaching definitions for one loop body, entered with every variable bound to PREV (whatever reaches the loop head)."""

    def __init__(self, loop: ast.For):
        self.loop = loop
        self.at: Dict[int, State] = {}  # id(stmt or call-bearing stmt) -> state before it
        self._cont: List[State] = []
        self._brk: List[State] = []
        st: State = {}
        for n in _names(loop.target)[0]:
            st[n] = frozenset([loop])
        end = self._block(loop.body, st)
        for c in self._cont:
            end = _join(end, c)
        self.end: State = end

    def get(self, state: State, var: str) -> FrozenSet[object]:
        if state is None:
            return frozenset()
        return state.get(var, frozenset([PREV]))

    def _assign(self, st: Dict, targets: List[ast.AST], node: ast.AST) -> Dict:
        st = dict(st)
        for t in targets:
            s, w = _names(t)
            for n in s:
                st[n] = frozenset([node])
            for n in w:
                st[n] = st.get(n, frozenset([PREV])) | frozenset([node])
        return st

    def _block(self, body: List[ast.stmt], st: State) -> State:
        for s in body:
            if st is None:
                return None
            st = self._stmt(s, st)
        return st

    def _loop(self, node, st: State, target=None) -> State:
        saved_c, saved_b = self._cont, self._brk
        entry = st
        for _ in range(20):
            self._cont, self._brk = [], []
            cur = dict(entry)
            if target is not None:
                cur = self._assign(cur, [target], node)
            out = self._block(node.body, cur)
            for c in self._cont:
                out = _join(out, c) if out is not None or c is not None else None
            new_entry = _join(entry, out) if out is not None else entry
            if new_entry == entry:
                break
            entry = new_entry
        after = entry
        for b in self._brk:
            after = _join(after, b)
        self._cont, self._brk = saved_c, saved_b
        if node.orelse:
            after = self._block(node.orelse, after)
        return after

    def _stmt(self, s: ast.stmt, st: Dict) -> State:
        self.at[id(s)] = st
        if isinstance(s, ast.Assign):
            return self._assign(st, s.targets, s)
        if isinstance(s, ast.AnnAssign):
            return self._assign(st, [s.target], s) if s.value is not None else st
        if isinstance(s, ast.AugAssign):
            return self._assign(st, [s.target], s)
        if isinstance(s, ast.If):
            a = self._block(s.body, dict(st))
            b = self._block(s.orelse, dict(st))
            if a is None and b is None:
                return None
            if a is None:
                return b
            if b is None:
                return a
            out = {}
            for k in set(a) | set(b):
                out[k] = a.get(k, st.get(k, frozenset([PREV]))) | b.get(k, st.get(k, frozenset([PREV])))
            return out
        if isinstance(s, ast.For):
            return self._loop(s, st, s.target)
        if isinstance(s, ast.While):
            return self._loop(s, st)
        if isinstance(s, (ast.Return, ast.Raise)):
            return None
        if isinstance(s, ast.Continue):
            self._cont.append(st)
            return None
        if isinstance(s, ast.Break):
            self._brk.append(st)
            return None
        if isinstance(s, ast.With):
            for it in s.items:
                if it.optional_vars is not None:
                    st = self._assign(st, [it.optional_vars], s)
            return self._block(s.body, st)
        if isinstance(s, ast.Try):
            a = self._block(s.body, dict(st))
            out = a
            for h in s.handlers:
                out = _join(out, self._block(h.body, _join(dict(st), a)))
            if s.orelse and out is not None:
                out = self._block(s.orelse, out)
            if s.finalbody and out is not None:
                out = self._block(s.finalbody, out)
            return out
        return st


def _stmt_of(fn: ast.AST, node: ast.AST) -> ast.stmt:
    """innermost simple statement of `fn` that contains `node`"""
    best = None
    for s in ast.walk(fn):
        if isinstance(s, ast.stmt) and not isinstance(s, (ast.For, ast.While, ast.If, ast.With, ast.Try, ast.FunctionDef)):
            if any(x is node for x in ast.walk(s)):
                best = s
    if best is None:
        raise AnalysisError(f"statement containing {short(node)} not found")
    return best


def _is_accumulated(d: object, var: str) -> bool:
    """a definition that builds on an earlier value of the same variable (x = f(x, ...), x += ..., x[i] = ...)"""
    if d is PREV or isinstance(d, ast.For):
        return False
    if isinstance(d, ast.AugAssign):
        return True
    if isinstance(d, ast.Assign):
        s, w = [], []
        for t in d.targets:
            a, b = _names(t)
            s += a
            w += b
        if var in w:
            return True
        return any(isinstance(x, ast.Name) and x.id == var for x in ast.walk(d.value))
    return True


def rule_acc_fresh(ctx: Ctx, rel: str, qual: str, acc_callee: str = "row_sum") -> None:
    repo = ctx.repo
    m = repo.module(rel)
    fn = repo.anchor(rel, qual)
    ctx.touch(m, fn)
    outer = [s for s in fn.body if isinstance(s, ast.For)]
    sites = 0
    for loop in outer:
        calls = [c for c in calls_in(loop) if (call_attr(c) or call_name(c)) == acc_callee]
        if not calls:
            continue
        rd = ReachingDefs(loop)
        for c in calls:
            st = rd.at.get(id(_stmt_of(loop, c)))
            if st is None:
                raise AnalysisError(f"{qual}: no flow state at the {acc_callee} call")
            for a in list(c.args) + [k.value for k in c.keywords]:
                if not isinstance(a, ast.Name):
                    continue
                sites += 1
                reaching = rd.get(st, a.id)
                if PREV not in reaching:
                    ctx.ok("acc.fresh", m, c, what=f"{qual}: `{a.id}` given to {acc_callee} is rebuilt in the same iteration of `{short(loop.target)}`")
                    continue
                carried = [d for d in rd.get(rd.end, a.id) if _is_accumulated(d, a.id)]
                if carried:
                    ctx.fail("acc.fresh", m, c,
                             f"{qual}: `{a.id}` reaches {acc_callee} from the previous iteration of the `for {short(loop.target)}` loop still holding "
                             f"`{short(carried[0], 70)}`: the row accumulated for generator {short(loop.target)} also contains the generators multiplied in "
                             f"for earlier ones, so the sign/orthogonality test compares the wrong product",
                             func=qual, construct=f"{qual}: {a.id} carried across iterations into {acc_callee}")
                else:
                    ctx.ok("acc.fresh", m, c, what=f"{qual}: `{a.id}` enters each iteration un-accumulated")
    if sites == 0:
        raise AnalysisError(f"{qual}: no {acc_callee} accumulation inside a top-level loop (anchor moved?)")


# --------------------------------------------------------------------------------------------------------------- pivot.choice


def _is_last_of(sel: ast.AST, lst: str) -> Optional[bool]:
    """does `sel` select the last element of list `lst`?  None = not a selection from lst at all"""
    if isinstance(sel, ast.Subscript) and isinstance(sel.value, ast.Name) and sel.value.id == lst:
        i = sel.slice
        if isinstance(i, ast.UnaryOp) and isinstance(i.op, ast.USub) and isinstance(i.operand, ast.Constant):
            return i.operand.value == 1
        if isinstance(i, ast.Constant):
            return False
        if norm(i) in (f"len({lst}) - 1", f"-1 + len({lst})"):
            return True
        return False
    if isinstance(sel, ast.Call):
        if call_name(sel) == "max" and len(sel.args) == 1 and norm(sel.args[0]) == lst:
            return True
        if call_name(sel) == "min" and len(sel.args) == 1 and norm(sel.args[0]) == lst:
            return False
        if call_attr(sel) == "pop" and norm(sel.func.value) == lst:
            return not sel.args or norm(sel.args[0]) == "-1"
    return None


def rule_pivot_choice(ctx: Ctx, rel: str) -> None:
    repo = ctx.repo
    m = repo.module(rel)
    fn = repo.anchor(rel, "inverse_circuit")
    finder = repo.anchor(rel, "pauli_type_finder")
    ctx.touch(m, fn)
    ctx.touch(m, finder)
    # pauli_type_finder: three lists filled by append while scanning rows upwards; returned as (x, y, z)
    ret = [r for r in ast.walk(finder) if isinstance(r, ast.Return)]
    if len(ret) != 1 or not isinstance(ret[0].value, ast.Tuple) or len(ret[0].value.elts) != 3:
        raise AnalysisError("pauli_type_finder: return shape not (x_list, y_list, z_list)")
    scan = [s for s in finder.body if isinstance(s, ast.For)]
    asc = (len(scan) == 1 and isinstance(scan[0].iter, ast.Call) and call_name(scan[0].iter) == "range" and len(scan[0].iter.args) == 2
           and all((call_attr(c) != "insert") for c in calls_in(scan[0])))
    if not asc:
        ctx.fail("pivot.choice", m, finder, "pauli_type_finder no longer collects candidate rows by appending over an ascending range: "
                                            "the first/last element of its lists is not the top/bottom-most row", func="pauli_type_finder",
                 construct="pauli_type_finder: ascending scan")
    else:
        ctx.ok("pivot.choice", m, scan[0], what="pauli_type_finder lists are in ascending row order")
    # in inverse_circuit: x, y, z = pauli_type_finder(...)
    binds = [s for s in ast.walk(fn) if isinstance(s, ast.Assign) and isinstance(s.value, ast.Call) and call_name(s.value) == "pauli_type_finder"]
    if len(binds) != 1 or not isinstance(binds[0].targets[0], ast.Tuple) or len(binds[0].targets[0].elts) != 3:
        raise AnalysisError("inverse_circuit: pauli_type_finder result is not unpacked into three lists")
    xl, yl, zl = [e.id for e in binds[0].targets[0].elts]
    env = {}
    for s in ast.walk(fn):
        if isinstance(s, ast.Assign) and len(s.targets) == 1 and isinstance(s.targets[0], ast.Name):
            env[s.targets[0].id] = s.value
    had = None
    for s in fn.body:
        if isinstance(s, ast.For) and any(x is binds[0] for x in ast.walk(s)):
            had = s
    if had is None:
        raise AnalysisError("inverse_circuit: Hadamard block loop not found")
    swaps = [c for c in calls_in(had) if call_name(c) == "tab_row_swap" and len(c.args) == 3]
    if not swaps:
        raise AnalysisError("inverse_circuit: no pivot row swap in the Hadamard block")
    seen_z = False
    for c in swaps:
        sel = c.args[2]
        # which candidate lists can this selection draw from?
        src = sel
        base = None
        if isinstance(sel, ast.Subscript) and isinstance(sel.value, ast.Name):
            base = sel.value.id
        elif isinstance(sel, ast.Call) and sel.args and isinstance(sel.args[0], ast.Name):
            base = sel.args[0].id
        elif isinstance(sel, ast.Call) and call_attr(sel) == "pop" and isinstance(sel.func.value, ast.Name):
            base = sel.func.value.id
        if base is None:
            raise AnalysisError(f"inverse_circuit: pivot selection `{short(sel)}` not recognised")
        lists = {base}
        if base not in (xl, yl, zl):
            e = env.get(base)
            if e is None:
                raise AnalysisError(f"inverse_circuit: pivot candidates `{base}` not resolved")
            lists = {n.id for n in ast.walk(e) if isinstance(n, ast.Name) and n.id in (xl, yl, zl)}
            if not lists:
                raise AnalysisError(f"inverse_circuit: pivot candidates `{base}` = `{short(e)}` do not come from pauli_type_finder")
        if zl in lists:
            seen_z = True
            last = _is_last_of(sel, base)
            if last:
                ctx.ok("pivot.choice", m, c, what="Z-only column: bottom-most candidate row becomes the pivot")
            else:
                ctx.fail("pivot.choice", m, c,
                         f"inverse_circuit moves `{short(sel)}` to the pivot row when the column holds only Pauli Z (candidates {sorted(lists)}): that "
                         f"is not the bottom-most candidate, so an X-block row of the canonical form (pivot further right) can be taken, receives the "
                         f"Hadamard, and a later column is left without a diagonal generator — the returned gate list no longer maps the state to |0..0>",
                         func="inverse_circuit", construct="inverse_circuit: Z-only pivot is not the last candidate")
        else:
            ok = _is_last_of(sel, base)
            if ok is None:
                raise AnalysisError(f"inverse_circuit: pivot selection `{short(sel)}` not recognised")
            ctx.ok("pivot.choice", m, c, what=f"pivot from {sorted(lists)}")
    if not seen_z:
        ctx.fail("pivot.choice", m, had, "inverse_circuit's Hadamard block has no pivot step for a column that holds only Pauli Z", func="inverse_circuit",
                 construct="inverse_circuit: Z-only column unhandled")


# ------------------------------------------------------------------------------------------------------- trial.fresh


def _mutated_params(fn: ast.FunctionDef) -> Set[int]:
    """positions of parameters that the function stores into in place (p[...] = ..., p[...] op= ..., p.fill/…)"""
    ps = [a.arg for a in fn.args.posonlyargs + fn.args.args]
    rebound = set()
    out: Set[int] = set()
    for s in ast.walk(fn):
        tg = []
        if isinstance(s, ast.Assign):
            tg = s.targets
        elif isinstance(s, (ast.AugAssign, ast.AnnAssign)):
            tg = [s.target]
        for t in tg:
            if isinstance(t, ast.Name) and t.id in ps and not isinstance(s, ast.AugAssign):
                rebound.add(t.id)
            strong, weak = _names(t)
            for n in weak:
                if n in ps:
                    out.add(ps.index(n))
            if isinstance(s, ast.AugAssign) and isinstance(t, ast.Name) and t.id in ps:
                out.add(ps.index(t.id))  # ndarray += mutates the caller's array
    return {i for i in out if ps[i] not in rebound}


def rule_trial_fresh(ctx: Ctx, rel: str) -> None:
    """trial.fresh: inside a loop, an object handed to a helper that stores into it in place is created in the same
    iteration; otherwise what the helper wrote for the previous trial is still in it when the next trial starts."""
    repo = ctx.repo
    m = repo.module(rel)
    funcs = {f.name: f for f in m.tree.body if isinstance(f, ast.FunctionDef)}
    mut = {n: _mutated_params(f) for n, f in funcs.items()}
    sites = 0
    for fname, fn in funcs.items():
        loops_ = [s for s in ast.walk(fn) if isinstance(s, ast.For)]
        for loop in loops_:
            # outermost loops only: an inner loop is analysed as part of its outer loop's body as well as on its own
            for c in calls_in(loop):
                callee = call_name(c)
                if callee not in mut or not mut[callee]:
                    continue
                ps = [a.arg for a in funcs[callee].args.posonlyargs + funcs[callee].args.args]
                for i in mut[callee]:
                    a = c.args[i] if i < len(c.args) else next((k.value for k in c.keywords if k.arg == ps[i]), None)
                    if not isinstance(a, ast.Name):
                        continue
                    sites += 1
                    ctx.touch(m, fn)
                    rd = ReachingDefs(loop)
                    st = rd.at.get(id(_stmt_of(loop, c)))
                    if st is None:
                        continue  # the call sits in a nested construct the walker does not enter (comprehension): not a per-iteration site
                    if PREV in rd.get(st, a.id):
                        ctx.fail("trial.fresh", m, c,
                                 f"{fname}: `{a.id}` is handed to {callee}(), which stores into its parameter `{ps[i]}` in place, but `{a.id}` is not "
                                 f"created inside the `for {short(loop.target)}` iteration that makes the call: the entries {callee} wrote for the previous "
                                 f"iteration are still in it, so the vector returned for this one is not the solution of this iteration's system",
                                 func=fname, construct=f"{fname}: {a.id} shared across iterations with in-place {callee}")
                    else:
                        ctx.ok("trial.fresh", m, c, what=f"{fname}: `{a.id}` passed to in-place {callee} is created per iteration of `{short(loop.target)}`")
    if sites == 0:
        raise AnalysisError(f"{rel}: no loop hands a local object to an in-place helper (the trial loop moved?)")


# --------------------------------------------------------------------------------------------------------- gf2.truth


class _Unreduced(Exception):
    def __init__(self, node):
        self.node = node


def rule_gf2_truth(ctx: Ctx, rel: str, qual: str) -> None:
    """gf2.truth: a GF(2) quantity that decides a yes/no answer by its truthiness is reduced mod 2 first (1 + 1 is 2, which
    is truthy, where the field says 0)."""
    repo = ctx.repo
    m = repo.module(rel)
    fn = repo.anchor(rel, qual)
    ctx.touch(m, fn)
    contrib: Dict[str, List[ast.AST]] = {}
    for s in ast.walk(fn):
        if isinstance(s, ast.Assign) and len(s.targets) == 1 and isinstance(s.targets[0], ast.Name):
            contrib.setdefault(s.targets[0].id, []).append(s.value)
        if isinstance(s, ast.Call) and call_attr(s) == "append" and isinstance(s.func.value, ast.Name) and s.args:
            contrib.setdefault(s.func.value.id, []).append(s.args[0])
    params = {a.arg for a in fn.args.args}
    seen: Set[str] = set()

    def bit(e: ast.AST) -> bool:
        """is the value of e an array/scalar of 0/1 (or a bool)?  raises _Unreduced at a truth test of a non-bit value"""
        if isinstance(e, ast.Constant):
            return e.value in (0, 1, True, False)
        if isinstance(e, (ast.List, ast.Tuple)):
            return all(bit(x) for x in e.elts)
        if isinstance(e, ast.Name):
            if e.id in params:
                return True
            if e.id in seen:
                return True
            seen.add(e.id)
            cs = [c for c in contrib.get(e.id, []) if not (isinstance(c, (ast.List,)) and not c.elts)]
            if not cs and e.id not in contrib:
                raise AnalysisError(f"{qual}: `{e.id}` not resolved")
            return all(bit(c) for c in cs)
        if isinstance(e, ast.Subscript):
            return bit(e.value)
        if isinstance(e, ast.Attribute):
            return bit(e.value) if e.attr in ("T",) else True
        if isinstance(e, ast.BinOp):
            if isinstance(e.op, ast.Mod) and isinstance(e.right, ast.Constant) and e.right.value == 2:
                _scan(e.left)
                return True
            if isinstance(e.op, ast.BitAnd) and any(isinstance(x, ast.Constant) and x.value == 1 for x in (e.left, e.right)):
                _scan(e.left), _scan(e.right)
                return True
            if isinstance(e.op, (ast.Mult, ast.BitXor, ast.BitAnd, ast.BitOr)):
                return bit(e.left) and bit(e.right)
            _scan(e.left), _scan(e.right)
            return False
        if isinstance(e, ast.UnaryOp):
            return isinstance(e.op, ast.Not) or bit(e.operand)
        if isinstance(e, ast.Compare):
            _scan(e.left)
            for c in e.comparators:
                _scan(c)
            return True
        if isinstance(e, ast.BoolOp):
            return all(bit(v) for v in e.values)
        if isinstance(e, (ast.ListComp, ast.GeneratorExp)):
            return bit(e.elt)
        if isinstance(e, ast.Call):
            cn = call_name(e) or ""
            ca = call_attr(e) or ""
            if cn in ("all", "any", "np.all", "np.any", "bool") or ca in ("all", "any"):
                arg = e.args[0] if e.args else (e.func.value if isinstance(e.func, ast.Attribute) else None)
                if arg is not None and not bit(arg):
                    raise _Unreduced(arg)
                return True
            if cn in ("int", "np.array", "np.asarray", "list", "tuple", "np.int64", "abs", "np.abs") and e.args:
                return bit(e.args[0])
            if ca in ("reshape", "astype", "copy", "flatten", "ravel", "transpose"):
                return bit(e.func.value)
            if cn in ("np.mod", "np.remainder") and len(e.args) == 2 and isinstance(e.args[1], ast.Constant) and e.args[1].value == 2:
                return True
            if cn in ("np.logical_and", "np.logical_or", "np.logical_xor", "np.logical_not", "np.bitwise_xor", "np.bitwise_and"):
                return True
            if cn in ("np.shape", "len", "range"):
                return True
            raise AnalysisError(f"{qual}: value `{short(e)}` not classified (gf2.truth)")
        raise AnalysisError(f"{qual}: expression `{short(e)}` not classified (gf2.truth)")

    def _scan(e: ast.AST) -> None:
        bit(e)

    rets = [r for r in ast.walk(fn) if isinstance(r, ast.Return) and r.value is not None]
    tests = [s.test for s in ast.walk(fn) if isinstance(s, (ast.If, ast.While, ast.IfExp))]
    if not rets:
        raise AnalysisError(f"{qual}: no return value")
    n_ok = 0
    for e in [r.value for r in rets] + tests:
        try:
            seen.clear()
            good = bit(e)
            if not good:
                raise _Unreduced(e)
            n_ok += 1
        except _Unreduced as u:
            node = u.node
            shown = node
            if isinstance(node, ast.Name) and contrib.get(node.id):
                shown = contrib[node.id][-1]
            ctx.fail("gf2.truth", m, e,
                     f"{qual} decides by the truthiness of `{short(node, 50)}` = `{short(shown, 90)}`, a sum over GF(2) that is never reduced mod 2: "
                     f"1 + 1 = 2 is truthy although the determinant is 0, so a singular block (all ones) is accepted as a Clifford",
                     func=qual, construct=f"{qual}: unreduced GF(2) sum decides validity")
            return
    ctx.ok("gf2.truth", m, rets[0], what=f"{qual}: every value tested for truth is reduced mod 2 ({n_ok} tests)")


# ------------------------------------------------------------------------------------------------------ iter.snapshot

_SNAPSHOT_CALLS = {"list", "tuple", "sorted", "set", "frozenset", "dict", "copy.copy", "copy.deepcopy", "deepcopy", "copy"}


def _self_attr_root(e: ast.AST) -> Optional[str]:
    """`self.X`, `self.X[k]`, `self.X.get(k, d)`, `self.X[k][j]`, `self.X.values()` ... -> X   (None when a snapshot call intervenes)"""
    while True:
        if isinstance(e, ast.Subscript):
            e = e.value
        elif isinstance(e, ast.Call) and isinstance(e.func, ast.Attribute) and e.func.attr in ("get", "values", "keys", "items"):
            e = e.func.value
        elif isinstance(e, ast.Attribute) and isinstance(e.value, ast.Name) and e.value.id == "self":
            return e.attr
        else:
            return None


def _pos_params(fn: ast.FunctionDef) -> List[str]:
    return [a.arg for a in fn.args.posonlyargs + fn.args.args if a.arg != "self"]


def _arg_at(c: ast.Call, fn: ast.FunctionDef, i: int) -> Optional[ast.AST]:
    ps = _pos_params(fn)
    if i < len(c.args):
        return c.args[i]
    for k in c.keywords:
        if k.arg == ps[i]:
            return k.value
    return None


def _removal_summaries(methods: Dict[str, ast.FunctionDef]) -> Dict[str, Set[Tuple[str, int]]]:
    """method -> {(container attribute R, parameter index i)}: the method takes its i-th argument out of a list held in
    self.R (directly by `.remove(p)` / `del` or through another method of the object)."""
    rem: Dict[str, Set[Tuple[str, int]]] = {k: set() for k in methods}
    for k, f in methods.items():
        ps = _pos_params(f)
        for n in ast.walk(f):
            if isinstance(n, ast.Call) and isinstance(n.func, ast.Attribute) and n.func.attr in ("remove", "discard") and n.args:
                r = _self_attr_root(n.func.value)
                if r and isinstance(n.args[0], ast.Name) and n.args[0].id in ps:
                    rem[k].add((r, ps.index(n.args[0].id)))
    changed = True
    while changed:
        changed = False
        for k, f in methods.items():
            ps = _pos_params(f)
            for c in calls_in(f):
                fu = c.func
                if isinstance(fu, ast.Attribute) and isinstance(fu.value, ast.Name) and fu.value.id == "self" and fu.attr in rem:
                    for (r, i) in list(rem[fu.attr]):
                        a = _arg_at(c, methods[fu.attr], i)
                        if isinstance(a, ast.Name) and a.id in ps and (r, ps.index(a.id)) not in rem[k]:
                            rem[k].add((r, ps.index(a.id)))
                            changed = True
    return rem


def rule_iter_snapshot(ctx: Ctx, rel: str, cname: str) -> None:
    """iter.snapshot: a loop that walks one of the object's own lists and takes the element it is looking at out of that list
    (directly or through the object's methods) must walk a copy; otherwise the list iterator skips the element that follows
    every removed one."""
    repo = ctx.repo
    m = repo.module(rel)
    ci = repo.cls(cname, rel)
    methods = dict(ci.methods())
    for b in repo.mro(ci)[1:]:
        for k, v in b.methods().items():
            methods.setdefault(k, v)
    rem = _removal_summaries(methods)
    if not any(rem.values()):
        raise AnalysisError(f"{cname}: no method that removes an element from an own list (anchor moved?)")
    live = removing = 0
    for k, f in ci.methods().items():
        env: Dict[str, List[ast.AST]] = {}
        for s in ast.walk(f):
            if isinstance(s, ast.Assign) and len(s.targets) == 1 and isinstance(s.targets[0], ast.Name):
                env.setdefault(s.targets[0].id, []).append(s.value)
        for loop in [s for s in ast.walk(f) if isinstance(s, ast.For)]:
            it = loop.iter
            if isinstance(it, ast.Name) and len(env.get(it.id, [])) == 1:
                it = env[it.id][0]
            root = _self_attr_root(it)
            tnames = set(_names(loop.target)[0])
            # calls in the body that remove an element from some own list
            rd = None
            for c in calls_in(loop):
                fu = c.func
                hits: List[Tuple[str, ast.AST]] = []
                if isinstance(fu, ast.Attribute) and isinstance(fu.value, ast.Name) and fu.value.id == "self" and fu.attr in rem:
                    for (r, i) in rem[fu.attr]:
                        a = _arg_at(c, methods[fu.attr], i)
                        if a is not None:
                            hits.append((r, a))
                elif isinstance(fu, ast.Attribute) and fu.attr in ("remove", "discard") and c.args and _self_attr_root(fu.value):
                    hits.append((_self_attr_root(fu.value), c.args[0]))
                for r, a in hits:
                    if not (isinstance(a, ast.Name) and a.id in tnames):
                        continue
                    if rd is None:
                        rd = ReachingDefs(loop)
                    try:
                        st = rd.at.get(id(_stmt_of(loop, c)))
                    except AnalysisError:
                        st = None
                    if st is None or loop not in rd.get(st, a.id):
                        continue  # the name was re-bound: it is no longer the element being iterated
                    removing += 1
                    ctx.touch(m, f)
                    if root is not None and root == r:
                        live += 1
                        ctx.fail("iter.snapshot", m, loop,
                                 f"{cname}.{k} iterates over `{short(it, 60)}` (the live list inside self.{root}) and its body takes the current element "
                                 f"`{a.id}` out of self.{r} through `{short(c, 50)}`: the list iterator then skips the element after each removed one, "
                                 f"so only every other entry is processed", func=f"{cname}.{k}",
                                 construct=f"{cname}.{k}: removes the iterated element from the live self.{root} list")
                    else:
                        ctx.ok("iter.snapshot", m, loop, what=f"{cname}.{k}: removes `{a.id}` while walking `{short(it, 40)}` (a snapshot / another container)")
    if removing == 0:
        raise AnalysisError(f"{cname}: no loop removes the element it iterates over (the remove_* loops moved?)")


# ------------------------------------------------------------------------------------------------------- view.stale

_VIEW_FUNCS = {"np.diag", "np.diagonal", "np.transpose", "np.ravel", "np.reshape", "np.swapaxes", "np.squeeze", "np.atleast_2d", "np.asarray"}
_VIEW_METHODS = {"diagonal", "reshape", "ravel", "transpose", "view", "squeeze", "swapaxes"}
_INPLACE_FUNCS = {"np.fill_diagonal": 0, "np.put": 0, "np.place": 0, "np.copyto": 0, "np.putmask": 0}


def _view_base(e: ast.AST) -> Optional[str]:
    """name of the array that `e` is a numpy *view* of (None if e is a fresh object or not recognised)"""
    if isinstance(e, ast.Call):
        cn = call_name(e) or ""
        if cn in _VIEW_FUNCS and e.args:
            return _view_base(e.args[0]) or (e.args[0].id if isinstance(e.args[0], ast.Name) else None)
        if isinstance(e.func, ast.Attribute) and e.func.attr in _VIEW_METHODS:
            return _view_base(e.func.value) or (e.func.value.id if isinstance(e.func.value, ast.Name) else None)
        return None
    if isinstance(e, ast.Attribute) and e.attr == "T":
        return _view_base(e.value) or (e.value.id if isinstance(e.value, ast.Name) else None)
    if isinstance(e, ast.Subscript) and isinstance(e.value, ast.Name):
        sl = e.slice
        parts = sl.elts if isinstance(sl, ast.Tuple) else [sl]
        # a Name index may be a list (fancy indexing copies), so only slices and integer literals count as basic indexing
        if any(isinstance(p, ast.Slice) for p in parts) and all(isinstance(p, ast.Slice) or (isinstance(p, ast.Constant) and isinstance(p.value, int)) for p in parts):
            return e.value.id
    return None


def rule_view_stale(ctx: Ctx, rel: str, quals: Optional[List[str]] = None) -> None:
    """view.stale: a name bound to a numpy view of an array (np.diag(A), A.T, a basic slice, reshape, ravel ...) is not read after
    A has been modified in place (A[i, j] = ..., np.fill_diagonal(A, ...), A += ...): the view shows the modified data, not the
    values it had when the name was bound."""
    repo = ctx.repo
    m = repo.module(rel)
    fns = [f for f in ast.walk(m.tree) if isinstance(f, ast.FunctionDef)] if quals is None else [repo.anchor(rel, q) for q in quals]
    views = 0
    for fn in fns:
        binds = [(n.targets[0].id, _view_base(n.value), n) for n in ast.walk(fn) if isinstance(n, ast.Assign) and len(n.targets) == 1
                 and isinstance(n.targets[0], ast.Name) and _view_base(n.value)]
        for v, base, bnode in binds:
            if v == base:
                continue
            views += 1
            ctx.touch(m, fn)
            muts = []
            for n in ast.walk(fn):
                if n.__dict__.get("lineno", 0) <= bnode.lineno:
                    continue
                if isinstance(n, (ast.Assign, ast.AugAssign)):
                    tg = n.targets if isinstance(n, ast.Assign) else [n.target]
                    for t in tg:
                        if isinstance(t, ast.Subscript) and isinstance(t.value, ast.Name) and t.value.id == base:
                            muts.append(n)
                        if isinstance(n, ast.AugAssign) and isinstance(t, ast.Name) and t.id == base:
                            muts.append(n)
                if isinstance(n, ast.Call) and (call_name(n) or "") in _INPLACE_FUNCS and n.args and isinstance(n.args[0], ast.Name) and n.args[0].id == base:
                    muts.append(n)
            # re-binding of the view name or of the base ends the aliasing
            rebind = [n.lineno for n in ast.walk(fn) if isinstance(n, ast.Assign) and n.lineno > bnode.lineno
                      and any(isinstance(t, ast.Name) and t.id in (v, base) for t in n.targets)]
            horizon = min(rebind) if rebind else 10 ** 9
            muts = [x for x in muts if x.lineno < horizon]
            bad = None
            if muts:
                first = min(x.lineno for x in muts)
                for n in ast.walk(fn):
                    if isinstance(n, ast.Name) and n.id == v and isinstance(n.ctx, ast.Load) and first < n.lineno <= horizon:
                        bad = n
                        break
            if bad is not None:
                mut = min(muts, key=lambda x: x.lineno)
                ctx.fail("view.stale", m, bad,
                         f"{fn.name}: `{v}` is a numpy view of `{base}` (`{short(bnode.value, 50)}`), `{base}` is then modified in place by "
                         f"`{short(mut, 50)}`, and `{v}` is read afterwards (line {bad.lineno}): it shows the modified data, not the values at binding time",
                         func=fn.name, construct=f"{fn.name}: view {v} of {base} read after in-place modification")
            else:
                ctx.ok("view.stale", m, bnode, what=f"{fn.name}: view `{v}` of `{base}` not read after `{base}` is modified")
    ctx.note(f"view.stale: {views} view bindings analysed in {rel}")


# ------------------------------------------------------------------------------------------------------- index.space


def rule_index_space(ctx: Ctx, rels: List[str]) -> None:
    """index.space: a loop variable that counts *positions in a filtered list* (`for i in range(len(F))`, F = [k for k in range(n) if ...])
    is not a label of the original collection: used for anything but `F[i]` (as a qubit number, a row / column of an n x n array, in a
    comparison with original labels) it addresses the wrong element as soon as the filter drops an element in the middle."""
    repo = ctx.repo
    scanned = hits = 0
    for rel in rels:
        m = repo.module(rel)
        for fn in [f for f in ast.walk(m.tree) if isinstance(f, ast.FunctionDef)]:
            scanned += 1
            env: Dict[str, ast.AST] = {}
            for a in ast.walk(fn):
                if isinstance(a, ast.Assign) and len(a.targets) == 1 and isinstance(a.targets[0], ast.Name):
                    env.setdefault(a.targets[0].id, a.value)
            filtered = {k for k, v in env.items() if isinstance(v, ast.ListComp) and len(v.generators) == 1 and v.generators[0].ifs
                        and isinstance(v.generators[0].iter, ast.Call) and call_name(v.generators[0].iter) == "range"
                        and norm(v.elt) == norm(v.generators[0].target)}
            if not filtered:
                continue
            lens = {k: v.args[0].id for k, v in env.items() if isinstance(v, ast.Call) and call_name(v) == "len" and v.args and isinstance(v.args[0], ast.Name)
                    and v.args[0].id in filtered}
            for l in [l_ for l_ in ast.walk(fn) if isinstance(l_, ast.For) and isinstance(l_.target, ast.Name) and isinstance(l_.iter, ast.Call) and call_name(l_.iter) == "range"]:
                F = None
                for a in l.iter.args:
                    for x in ast.walk(a):
                        if isinstance(x, ast.Name) and x.id in lens:
                            F = lens[x.id]
                        if isinstance(x, ast.Call) and call_name(x) == "len" and x.args and isinstance(x.args[0], ast.Name) and x.args[0].id in filtered:
                            F = x.args[0].id
                if F is None:
                    continue
                v = l.target.id
                bad = None
                for x in ast.walk(l):
                    if isinstance(x, ast.Name) and x.id == v and isinstance(x.ctx, ast.Load):
                        p_ = parent(x)
                        # allowed: F[v], and as a bound of a nested range over the same filtered list (for j in range(v + 1, nF))
                        if isinstance(p_, ast.Subscript) and isinstance(p_.value, ast.Name) and p_.value.id == F and p_.slice is x:
                            continue
                        q_ = p_
                        in_range = False
                        while q_ is not None and q_ is not l:
                            if isinstance(q_, ast.Call) and call_name(q_) == "range":
                                in_range = True
                            q_ = parent(q_)
                        if in_range:
                            continue
                        bad = x
                        break
                if bad is not None:
                    hits += 1
                    ctx.touch(m, fn)
                    ctx.fail("index.space", m, bad,
                             f"{fn.name}: `{v}` counts positions in the filtered list `{F}` (`{short(env[F], 60)}`) but is used as `{short(parent(bad), 50)}`, "
                             f"i.e. as a label of the unfiltered collection: whenever the filter drops an element before the end, position and label "
                             f"differ and the wrong qubit / row is addressed (use {F}[{v}])", func=fn.name,
                             construct=f"{fn.name}: position in {F} used as a label")
    if scanned == 0:
        raise AnalysisError("index.space: nothing scanned")
    if hits == 0:
        ctx.ok_abstract("index.space", f"no loop over positions of a filtered list uses the position as a label ({scanned} functions)")
