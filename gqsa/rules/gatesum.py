"""Effect summaries of the tableau gate functions over the finite Clifford model, and the gate-table rule (B5)."""
from __future__ import annotations

import ast
from typing import Dict, List, Optional, Tuple

from .. import clifford as cl
from .. import consteval
from ..core import (AnalysisError, Module, Repo, call_attr, call_name, calls_in, dotted, func_params, norm, qualname,
                    short)
from ..report import Ctx

TRANSFORM = "graphiq/backends/stabilizer/functions/transformation.py"
DMF = "graphiq/backends/density_matrix/functions.py"
SSTATE = "graphiq/backends/stabilizer/state.py"

# The three primitives are trusted *as named* (their column formulas are not decided statically, DESIGN §5.7).
PRIMITIVES = {"hadamard_gate": ("1", cl.H), "phase_gate": ("1", cl.P), "cnot_gate": ("2", cl.CNOT)}

# What each derived gate function's *name* denotes (the oracle side of the effect summary).
DENOTES = {
    "identity": ("1", cl.I2),
    "phase_dagger_gate": ("1", cl.PD),
    "z_gate": ("1", cl.Z),
    "x_gate": ("1", cl.X),
    "y_gate": ("1", cl.Y),
    "control_z_gate": ("2", cl.CZ),
    "control_y_gate": ("2", cl.CY),
}


class Unsummarisable(Exception):
    pass


def _steps(repo: Repo, m: Module, fn: ast.FunctionDef, depth: int = 0) -> List[Tuple[str, Tuple[int, ...]]]:
    """Time-ordered primitive steps of ``fn``: (primitive name, qubit-parameter indices 0/1)."""
    if depth > 6:
        raise Unsummarisable("recursion")
    params = func_params(fn)
    tab, qs = params[0], params[1:]
    if fn.args.vararg is not None and not qs:
        qs = []

    def qidx(e: ast.AST) -> int:
        if isinstance(e, ast.Name) and e.id in qs:
            return qs.index(e.id)
        raise Unsummarisable(f"argument {norm(e)} is not a qubit parameter")

    out: List[Tuple[str, Tuple[int, ...]]] = []

    def do_body(body: List[ast.stmt]):
        for st in body:
            if isinstance(st, ast.Expr) and isinstance(st.value, ast.Constant):
                continue
            if isinstance(st, ast.Return):
                if st.value is None or not (isinstance(st.value, ast.Name) and st.value.id == tab):
                    raise Unsummarisable(f"return {norm(st.value) if st.value else ''}")
                return
            if isinstance(st, ast.For):
                it = st.iter
                if isinstance(it, ast.Call) and isinstance(it.func, ast.Name) and it.func.id == "range" \
                        and len(it.args) == 1 and isinstance(it.args[0], ast.Constant) and isinstance(it.args[0].value, int) \
                        and not st.orelse:
                    for _ in range(it.args[0].value):
                        do_body(st.body)
                    continue
                raise Unsummarisable(f"loop {short(st.iter)}")
            if isinstance(st, ast.Assign) and len(st.targets) == 1 and isinstance(st.targets[0], ast.Name) \
                    and st.targets[0].id == tab and isinstance(st.value, ast.Call):
                c = st.value
                name = call_attr(c)
                if not c.args or not (isinstance(c.args[0], ast.Name) and c.args[0].id == tab) or c.keywords:
                    raise Unsummarisable(f"call shape {short(c)}")
                idx = tuple(qidx(a) for a in c.args[1:])
                if name in PRIMITIVES:
                    out.append((name, idx))
                    continue
                callee = m.find(name)
                if not isinstance(callee, ast.FunctionDef):
                    raise Unsummarisable(f"unknown callee {name}")
                d = _direct_sign_form(callee)  # a callee written as a pure sign update is a Pauli (BadSignUpdate propagates)
                if d is not None:
                    _DIRECT[name] = ("1", d)
                    out.append((name, idx))
                    continue
                for pn, pi in _steps(repo, m, callee, depth + 1):
                    out.append((pn, tuple(idx[i] for i in pi)))
                continue
            raise Unsummarisable(f"statement {short(st)}")

    do_body(fn.body)
    return out


_DIRECT: Dict[str, Tuple[str, object]] = {}


def _prim(name: str):
    return PRIMITIVES[name] if name in PRIMITIVES else _DIRECT[name]


class BadSignUpdate(Exception):
    """a pure sign update whose flip condition is not GF(2)-linear in (x, z): not a Pauli conjugation"""


def _direct_sign_form(fn: ast.FunctionDef):
    """Recognise a gate written as a pure sign update  `t.phase = t.phase ^ f(x_col, z_col)`  (table untouched), where x_col /
    z_col are the X and Z columns of the gate's qubit.  f is tabulated over the four (x, z) bit pairs — a finite boolean
    function, folded like a constant.  Returns the Pauli it denotes, raises BadSignUpdate if f is not linear, None if the body
    has another shape."""
    params = func_params(fn)
    if len(params) != 2:
        return None
    tab, q = params
    cols: Dict[str, str] = {}
    nq = None
    update = None
    for st in fn.body:
        if isinstance(st, ast.Expr) and isinstance(st.value, ast.Constant):
            continue
        if isinstance(st, ast.Assert):
            continue
        if isinstance(st, ast.Return):
            if not (isinstance(st.value, ast.Name) and st.value.id == tab):
                return None
            continue
        if isinstance(st, ast.Assign) and len(st.targets) == 1:
            t, v = st.targets[0], st.value
            if isinstance(t, ast.Name) and isinstance(v, ast.Attribute) and v.attr == "n_qubits":
                nq = t.id
                continue
            if isinstance(t, ast.Name) and isinstance(v, ast.Subscript) and isinstance(v.slice, ast.Tuple) and len(v.slice.elts) == 2 \
                    and norm(v.slice.elts[0]) == ":" and norm(v.value) in (f"{tab}.table", f"{tab}._table"):
                idx = norm(v.slice.elts[1])
                if idx == q:
                    cols[t.id] = "x"
                    continue
                if nq and idx in (f"{nq} + {q}", f"{q} + {nq}"):
                    cols[t.id] = "z"
                    continue
                return None
            if isinstance(t, ast.Attribute) and norm(t) == f"{tab}.phase" and isinstance(v, ast.BinOp) and isinstance(v.op, ast.BitXor) \
                    and norm(v.left) == f"{tab}.phase" and update is None:
                update = v.right
                continue
        return None
    if update is None:
        return None

    def col_kind(e):
        if isinstance(e, ast.Subscript) and isinstance(e.slice, ast.Tuple) and len(e.slice.elts) == 2 and norm(e.slice.elts[0]) == ":" \
                and norm(e.value) in (f"{tab}.table", f"{tab}._table"):
            idx = norm(e.slice.elts[1])
            if idx == q:
                return "x"
            if nq and idx in (f"{nq} + {q}", f"{q} + {nq}"):
                return "z"
        return None

    def ev(e, env):
        if isinstance(e, ast.Name) and e.id in cols:
            return env[cols[e.id]]
        if col_kind(e):
            return env[col_kind(e)]
        if isinstance(e, ast.Constant) and e.value in (0, 1):
            return int(e.value)
        if isinstance(e, ast.BinOp):
            a, b = ev(e.left, env), ev(e.right, env)
            if isinstance(e.op, ast.BitXor):
                return a ^ b
            if isinstance(e.op, ast.BitOr):
                return a | b
            if isinstance(e.op, (ast.BitAnd, ast.Mult)):
                return a & b
        if isinstance(e, ast.UnaryOp) and isinstance(e.op, ast.Invert):
            return 1 - ev(e.operand, env)
        raise Unsummarisable(f"sign expression {short(e)}")

    tt = tuple(ev(update, {"x": x, "z": z}) for x in (0, 1) for z in (0, 1))  # (x,z) = 00, 01, 10, 11
    pauli = {(0, 0, 0, 0): cl.I2, (0, 1, 0, 1): cl.X, (0, 0, 1, 1): cl.Z, (0, 1, 1, 0): cl.Y}.get(tt)
    if pauli is None:
        raise BadSignUpdate(f"sign is flipped for (x,z) in {[xz for xz, b in zip(['00', '01', '10', '11'], tt) if b]}")
    return pauli


def summarise(repo: Repo, name: str):
    """Model element (matrix) of transformation.<name>, or raise Unsummarisable / BadSignUpdate."""
    m = repo.module(TRANSFORM)
    fn = m.find(name)
    if not isinstance(fn, ast.FunctionDef):
        raise AnalysisError(f"anchor missing: {TRANSFORM}::{name}")
    if name in PRIMITIVES:
        return PRIMITIVES[name]
    direct = _direct_sign_form(fn)
    if direct is not None:
        return "1", direct
    steps = _steps(repo, m, fn)
    nq = len(func_params(fn)) - 1
    if fn.args.vararg is not None:
        nq = max(nq, 1)
    if nq == 1:
        u = cl.I2
        for pn, idx in steps:
            u = cl.mm(_prim(pn)[1], u)
        return "1", u
    if nq == 2:
        u = cl.eye(4)
        for pn, idx in steps:
            kind, g = _prim(pn)
            if kind == "1":
                full = cl.on_first(g) if idx[0] == 0 else cl.on_second(g)
            else:
                if idx == (0, 1):
                    full = g
                elif idx == (1, 0):
                    # swap roles
                    sw = [[1, 0, 0, 0], [0, 0, 1, 0], [0, 1, 0, 0], [0, 0, 0, 1]]
                    full = cl.mm(cl.mm(sw, g), sw)
                else:
                    raise Unsummarisable("cnot on the same qubit")
            u = cl.mm(full, u)
        return "2", u
    raise Unsummarisable(f"{nq} qubit parameters")


def rule_derived_gates(ctx: Ctx, rule: str = "effect.derived-gate"):
    """Each derived gate function equals (mod phase) the element its name denotes."""
    repo = ctx.repo
    m = repo.module(TRANSFORM)
    for name, (kind, want) in sorted(DENOTES.items()):
        fn = m.find(name)
        if not isinstance(fn, ast.FunctionDef):
            raise AnalysisError(f"anchor missing: {TRANSFORM}::{name}")
        ctx.touch(m, fn)
        try:
            k, u = summarise(repo, name)
        except BadSignUpdate as e:
            ctx.fail(rule, m, fn,
                     f"`{name}` updates only the sign vector, but its flip condition is not the commutation rule of any Pauli ({e}): a generator "
                     f"that commutes with the gate gets its sign flipped (or an anticommuting one does not)",
                     construct=f"{name}: non-Pauli sign update", func=name)
            continue
        except Unsummarisable as e:
            raise AnalysisError(f"{TRANSFORM}::{name}: body is not a straight-line composition of gate functions ({e})")
        if k == kind and cl.key(u) == cl.key(want):
            ctx.ok(rule, m, fn, what=f"{name} == {cl.key(want)}")
        else:
            ctx.fail(rule, m, fn,
                     f"`{name}` composes to the Clifford element {cl.key(u)} but its name denotes {cl.key(want)} "
                     f"(signed Pauli images of X, Z per qubit; primitives H, P, CNOT trusted as named)",
                     construct=f"{name}: composition", func=name)


# --------------------------------------------------------------------------- B5 gate table

# op class -> (kind, unitary it denotes). 'ctl' = quantum-controlled target gate, 'cc' = measurement-conditioned correction.
OP_DENOTES = {
    "Identity": ("1", cl.I2), "Hadamard": ("1", cl.H), "Phase": ("1", cl.P), "PhaseDagger": ("1", cl.PD),
    "SigmaX": ("1", cl.X), "SigmaY": ("1", cl.Y), "SigmaZ": ("1", cl.Z),
    "CNOT": ("ctl", cl.X), "CZ": ("ctl", cl.Z),
    "ClassicalCNOT": ("cc", cl.X), "ClassicalCZ": ("cc", cl.Z), "MeasurementCNOTandReset": ("cc", cl.X),
}


def stab_method_element(repo: Repo, cls: str, method: str):
    """Element applied by <cls>.<method> = the unique transform.* call in its body."""
    ci = repo.cls(cls, SSTATE)
    fn = ci.methods().get(method)
    if fn is None:
        raise AnalysisError(f"anchor missing: {SSTATE}::{cls}.{method}")
    tcalls = [c for c in calls_in(fn) if (call_name(c) or "").startswith("transform.")]
    params = func_params(fn)[1:]
    if not tcalls:
        # the transformation handed by reference to a helper of the same class that applies `gate(t_i, *positions)` to each branch:
        # self._helper(transform.<gate>, <positions...>)
        for c in calls_in(fn):
            if isinstance(c.func, ast.Attribute) and norm(c.func.value) == "self" and c.args and isinstance(c.args[0], ast.Attribute) \
                    and norm(c.args[0].value) == "transform":
                h = ci.methods().get(c.func.attr)
                if h is None:
                    continue
                hp = func_params(h)[1:]
                applies = [x for x in ast.walk(h) if isinstance(x, ast.Call) and isinstance(x.func, ast.Name) and hp and x.func.id == hp[0]
                           and (any(isinstance(a, ast.Starred) and h.args.vararg is not None and norm(a.value) == h.args.vararg.arg for a in x.args[1:])
                                or [norm(a) for a in x.args[1:]] == hp[1:])]       # gate(t_i, *positions)  or  gate(t_i, <the helper's own position parameters, in order>)
                if not applies:
                    raise AnalysisError(f"{SSTATE}::{cls}.{c.func.attr}: helper does not apply its gate argument as gate(tableau, *positions)")
                fwd = [a.id for a in c.args[1:] if isinstance(a, ast.Name)]
                return c.args[0].attr, params, fwd, c, fn
    if len(tcalls) != 1:
        raise AnalysisError(f"{SSTATE}::{cls}.{method}: expected exactly one transform.* call, found {len(tcalls)}")
    c = tcalls[0]
    tname = call_attr(c)
    # argument forwarding: method params (after self) must be passed in order after the tableau argument
    fwd = [a.id for a in c.args[1:] if isinstance(a, ast.Name)]
    return tname, params, fwd, c, fn


def dm_matrix_of(repo: Repo, expr: ast.AST, m: Module):
    """Fold ``dm.<f>()`` to a matrix by constant-folding <f>'s return expression."""
    if isinstance(expr, ast.Lambda):
        expr = expr.body
    if isinstance(expr, ast.Constant) and expr.value is None:
        return None
    if isinstance(expr, ast.Call) and not expr.args:
        d = call_name(expr) or ""
        head, _, name = d.rpartition(".")
        mod = repo.modules.get(m.imports.get(head, "")) if head else m
        if mod is not None:
            f = mod.find(name)
            if isinstance(f, ast.FunctionDef):
                try:
                    return consteval.to_complex_matrix(consteval.fold_return(f))
                except consteval.NotConstant as e:
                    raise AnalysisError(f"{mod.rel}::{name}: not a closed matrix literal ({e})")
    raise AnalysisError(f"cannot fold gate expression {short(expr)}")



def summarise_or_none(repo: Repo, name: str):
    """summarise(), but a function whose sign update is not a Pauli conjugation yields None: that defect is reported by
    effect.derived-gate; rules that merely *use* the summary skip the function instead of crashing."""
    try:
        return summarise(repo, name)
    except BadSignUpdate:
        return None
