"""Provenance-closure and alignment rules for relabel_module / alternate_target_solver (DESIGN §3 G10, G11)."""
from __future__ import annotations

import ast
from typing import Dict, List, Optional, Set

from .. import flow
from ..core import (AnalysisError, Module, Repo, call_attr, call_name, calls_in, func_params, get_kw, norm, parent, qualname, short)
from ..report import Ctx

RELABEL = "graphiq/utils/relabel_module.py"


def _derived_names(fn: ast.FunctionDef, seed: Set[str], orbit_var: str, step_fn: str) -> Set[str]:
    """Names that hold the input graph, a copy of it, or step_fn(<derived>, .) — fixpoint."""
    d = set(seed)
    changed = True

    def is_derived(e: ast.AST) -> bool:
        if isinstance(e, ast.Name):
            return e.id in d
        if isinstance(e, ast.Call):
            a = call_attr(e)
            if a in ("copy", "deepcopy"):
                recv = e.func.value if isinstance(e.func, ast.Attribute) else (e.args[0] if e.args else None)
                if a == "deepcopy" and e.args:
                    recv = e.args[0]
                return recv is not None and is_derived(recv)
            if a == step_fn and e.args:
                return is_derived(e.args[0])
        if isinstance(e, ast.Subscript):
            return isinstance(e.value, ast.Name) and e.value.id == orbit_var
        return False

    # greatest fixpoint: a name is derived iff *every* assignment to it is derived (self-reference allowed)
    assigns: Dict[str, List[ast.AST]] = {}
    for n in ast.walk(fn):
        if isinstance(n, ast.Assign) and len(n.targets) == 1 and isinstance(n.targets[0], ast.Name):
            assigns.setdefault(n.targets[0].id, []).append(n.value)
        elif isinstance(n, ast.Assign):
            for t in n.targets:
                for x in ast.walk(t):
                    if isinstance(x, ast.Name):
                        assigns.setdefault(x.id, []).append(ast.Constant(None))
        elif isinstance(n, (ast.AugAssign, ast.AnnAssign)) and isinstance(n.target, ast.Name):
            assigns.setdefault(n.target.id, []).append(ast.Constant(None))
        elif isinstance(n, ast.For):
            it = n.iter
            base = it.value if isinstance(it, ast.Subscript) else it
            good = isinstance(base, ast.Name) and base.id == orbit_var
            for x in ast.walk(n.target):
                if isinstance(x, ast.Name):
                    assigns.setdefault(x.id, []).append(ast.Name(id=orbit_var + "[]", ctx=ast.Load()) if good and x is n.target
                                                       else ast.Constant(None))
    d = set(seed) | set(assigns)
    d.add(orbit_var + "[]")
    while changed:
        changed = False
        for name, vals in assigns.items():
            if name in d and name not in seed and not all(is_derived(v) for v in vals):
                d.discard(name)
                changed = True
    # a parameter that is re-assigned must also satisfy the rule
    for name in list(seed):
        if name in assigns and not all(is_derived(v) for v in assigns[name]):
            d.discard(name)
    return d


def rule_orbit_provenance(ctx: Ctx, funcs: List[str], step_fn: str = "local_comp_graph") -> None:
    repo = ctx.repo
    m = repo.module(RELABEL)
    n = 0
    for q in funcs:
        fn = repo.anchor(RELABEL, q)
        ctx.touch(m, fn)
        gp = func_params(fn)[0]
        rets = [r for r in ast.walk(fn) if isinstance(r, ast.Return) and r.value is not None]
        # the list(s) the explorer returns, whatever they are called
        orbit_vars: List[str] = []
        for r in rets:
            base = r.value.value if isinstance(r.value, ast.Subscript) else r.value
            if isinstance(base, ast.Name) and base.id not in orbit_vars:
                orbit_vars.append(base.id)
        if not orbit_vars:
            raise AnalysisError(f"{q}: no `return <list>` found")
        built = set()
        for orbit_var in orbit_vars:
            d = _derived_names(fn, {gp}, orbit_var, step_fn)

            def ok_elem(e: ast.AST) -> bool:
                if isinstance(e, ast.Name):
                    return e.id in d
                if isinstance(e, ast.Call):
                    a = call_attr(e)
                    if a == "copy" and isinstance(e.func, ast.Attribute):
                        return ok_elem(e.func.value)
                    if a == step_fn and e.args:
                        return ok_elem(e.args[0])
                return False

            for node in ast.walk(fn):
                elems: List[ast.AST] = []
                if isinstance(node, ast.Assign) and len(node.targets) == 1 and isinstance(node.targets[0], ast.Name) \
                        and node.targets[0].id == orbit_var and isinstance(node.value, ast.List):
                    elems = list(node.value.elts)
                    built.add(orbit_var)
                elif isinstance(node, ast.Call) and call_name(node) in (f"{orbit_var}.append", f"{orbit_var}.insert"):
                    elems = [node.args[-1]]
                    built.add(orbit_var)
                elif isinstance(node, ast.Call) and call_name(node) == f"{orbit_var}.extend":
                    elems = [node.args[0]]
                    built.add(orbit_var)
                for e in elems:
                    n += 1
                    if ok_elem(e):
                        ctx.ok("flow.provenance-closure", m, node, what=f"{q}: {norm(e)}")
                    else:
                        ctx.fail("flow.provenance-closure", m, node,
                                 f"{q} places `{short(e)}` in its orbit list, which is neither the input graph (or its copy) nor "
                                 f"{step_fn}(<orbit element>, node): the returned graph may lie outside the local-complementation orbit",
                                 func=q, construct=f"{q}: orbit element {short(e, 80)}")
        for r in rets:
            v = r.value
            base = v.value if isinstance(v, ast.Subscript) else v
            n += 1
            if isinstance(base, ast.Name) and base.id in built:
                ctx.ok("flow.provenance-closure", m, r, what=f"{q} returns its orbit list")
            else:
                ctx.fail("flow.provenance-closure", m, r, f"{q} returns `{short(v)}`, which is not a list this function filled element by element "
                                                          f"(the provenance of its members is not established)", func=q,
                         construct=f"{q}: returns a value that is not its orbit list")
    if n == 0:
        raise AnalysisError("flow.provenance-closure: nothing analysed")


def rule_automorph(ctx: Ctx) -> None:
    repo = ctx.repo
    m = repo.module(RELABEL)
    fn = repo.anchor(RELABEL, "automorph_check")
    ctx.touch(m, fn)
    adj, labels = func_params(fn)[:2]
    set_vars = {n.targets[0].id for n in ast.walk(fn) if isinstance(n, ast.Assign) and isinstance(n.targets[0], ast.Name)
                and (isinstance(n.value, ast.Set) or (isinstance(n.value, ast.Call) and call_attr(n.value) == "set"))}
    if not set_vars:
        ctx.fail("flow.provenance-closure", m, fn, "automorph_check no longer de-duplicates through a set of flattened tuples",
                 func="automorph_check", construct="automorph_check: no de-duplication set")
        return
    relabelled = {n.targets[0].id for n in ast.walk(fn) if isinstance(n, ast.Assign) and isinstance(n.targets[0], ast.Name)
                  and isinstance(n.value, ast.Call) and call_attr(n.value) == "relabel" and n.value.args
                  and norm(n.value.args[0]) == adj}
    good = True
    for c in calls_in(fn):
        if call_attr(c) == "add" and isinstance(c.func, ast.Attribute) and norm(c.func.value) in set_vars:
            from ..core import deref as _deref
            base = c.args[0]
            while True:
                if isinstance(base, ast.Name) and base.id not in relabelled and base.id != adj and _deref(fn, base) is not base \
                        and not any(isinstance(l_, ast.For) and any(x is base for x in ast.walk(l_)) and any(
                            isinstance(a_, ast.Assign) and any(isinstance(t_, ast.Name) and t_.id == base.id for t_ in a_.targets) for a_ in ast.walk(l_)) is False
                            for l_ in ast.walk(fn)):
                    base = _deref(fn, base)
                    continue
                if isinstance(base, ast.Call) and isinstance(base.func, ast.Name) and base.func.id == "tuple" and len(base.args) == 1:
                    base = base.args[0]
                elif isinstance(base, ast.Call) and isinstance(base.func, ast.Attribute) and base.func.attr in ("flatten", "astype", "ravel"):
                    base = base.func.value
                else:
                    break
            if isinstance(base, ast.Name) and (base.id in relabelled or base.id == adj):
                ctx.ok("flow.provenance-closure", m, c)
            else:
                good = False
                ctx.fail("flow.provenance-closure", m, c,
                         f"automorph_check records `{short(c.args[0])}`, which is not `relabel({adj}, <permutation>)` of the input",
                         func="automorph_check")
    lists = [n for n in ast.walk(fn) if isinstance(n, ast.Assign) and isinstance(n.value, ast.List) and n.value.elts]
    first_ok = any(norm(l.value.elts[0]) == adj for l in lists)
    if first_ok:
        ctx.ok("flow.provenance-closure", m, lists[0], what="input adjacency first")
    else:
        ctx.fail("flow.provenance-closure", m, fn, "automorph_check's result list does not start with the input adjacency matrix",
                 func="automorph_check", construct="automorph_check: input not first")
    # elements appended come from iterating the de-duplication set
    for c in calls_in(fn):
        if call_attr(c) == "append":
            loop = None
            for a in _anc(c):
                if isinstance(a, ast.For):
                    loop = a
                    break
            if loop is not None and norm(loop.iter) in set_vars:
                ctx.ok("flow.provenance-closure", m, c)
            else:
                ctx.fail("flow.provenance-closure", m, c, "automorph_check appends a matrix that does not come from its "
                                                           "de-duplication set", func="automorph_check")
    # the input's own flattened tuple is removed from the set before re-appending (no duplicate of the input)
    from ..core import expand as _expand
    if any(call_attr(c) == "remove" and norm(c.func.value) in set_vars and adj in norm(_expand(fn, c.args[0])) for c in calls_in(fn)
           if isinstance(c.func, ast.Attribute) and c.args):
        ctx.ok_abstract("flow.provenance-closure", "automorph_check removes the input's own tuple from the set")
    else:
        ctx.fail("flow.provenance-closure", m, fn, "automorph_check no longer removes the input's own tuple from the set: the "
                                                    "input adjacency would be returned twice", func="automorph_check",
                 construct="automorph_check: input tuple not removed")


def _anc(n):
    p = parent(n)
    while p is not None:
        yield p
        p = parent(p)


def rule_iso_finder_bounds(ctx: Ctx) -> None:
    repo = ctx.repo
    m = repo.module(RELABEL)
    fn = repo.anchor(RELABEL, "iso_finder")
    ctx.touch(m, fn)
    n_iso = func_params(fn)[1]
    arr_names = {n.targets[0].id for n in ast.walk(fn) if isinstance(n, ast.Assign) and isinstance(n.targets[0], ast.Name)
                 and isinstance(n.value, ast.Call) and call_attr(n.value) == "automorph_check"}
    if not arr_names:
        raise AnalysisError("iso_finder: automorph_check result binding not found")

    def bounded(v: ast.AST, ret: ast.Return) -> bool:
        if isinstance(v, ast.Tuple):
            return bounded(v.elts[0], ret)
        if isinstance(v, ast.Subscript) and isinstance(v.slice, ast.Slice) and v.slice.lower is None \
                and v.slice.upper is not None and norm(v.slice.upper) == n_iso:
            return True
        if isinstance(v, ast.Name):
            # reassigned just before from a sliced value?
            st = ret
            prev = _prev_assign(fn, v.id, ret)
            if prev is not None and bounded(prev.value, ret) and not isinstance(prev.value, ast.Name):
                return True
            for a in _anc(ret):
                if isinstance(a, ast.While) and f"len({v.id}) < {n_iso}" in norm(a.test):
                    # no assignment to the name earlier in this iteration (statement order inside the loop body)
                    for st in ast.walk(a):
                        if isinstance(st, ast.Assign) and any(norm(t) == v.id for t in st.targets) and st.lineno < ret.lineno:
                            return False
                    return True
        return False

    rets = [r for r in ast.walk(fn) if isinstance(r, ast.Return) and r.value is not None]
    for r in rets:
        if bounded(r.value, r):
            ctx.ok("flow.provenance-closure", m, r, what="at most n_iso results")
        else:
            ctx.fail("flow.provenance-closure", m, r,
                     f"iso_finder returns `{short(r.value)}` which is neither sliced to `[:{n_iso}]` nor dominated by the loop "
                     f"condition `len(..) < {n_iso}`: more graphs than requested can be returned", func="iso_finder")


def _prev_assign(fn, name, before):
    best = None
    for st in ast.walk(fn):
        if isinstance(st, ast.Assign) and any(norm(t) == name for t in st.targets) and st.lineno < before.lineno:
            if best is None or st.lineno > best.lineno:
                best = st
    return best


# --------------------------------------------------------------------------- distinctness by construction


def rule_distinct_sources(ctx: Ctx) -> None:
    """distinct.source: (a) the array iso_finder returns is, at every assignment, one whole automorph_check(...) result (a set of
    flattened matrices, input first), a slice of such an array or its emitter_sorted re-ordering — gluing two separately
    de-duplicated batches together (concatenate / vstack / append / +) repeats matrices found in both; (b) an explorer that
    de-duplicates with check_isomorphism before appending tests the candidate against the whole list it appends to, not a
    part of it."""
    repo = ctx.repo
    m = repo.module(RELABEL)
    fn = repo.anchor(RELABEL, "iso_finder")
    ctx.touch(m, fn)
    adj_param = func_params(fn)[0]
    returned = set()
    for r in ast.walk(fn):
        if isinstance(r, ast.Return) and r.value is not None:
            v = r.value.elts[0] if isinstance(r.value, ast.Tuple) else r.value
            while isinstance(v, ast.Subscript):
                v = v.value
            if isinstance(v, ast.Name):
                returned.add(v.id)
    if not returned:
        raise AnalysisError("iso_finder: returned array name not found")

    def whole(v: ast.AST) -> bool:
        if isinstance(v, ast.Call) and call_name(v) == "automorph_check" and v.args and norm(v.args[0]) == adj_param:
            return True
        if isinstance(v, ast.Subscript) and isinstance(v.slice, ast.Slice) and isinstance(v.value, ast.Name) and v.value.id in returned:
            return True
        if isinstance(v, ast.Name) and v.id in returned:
            return True
        if isinstance(v, ast.Call) and call_name(v) in ("np.array", "np.asarray") and v.args and isinstance(v.args[0], ast.ListComp):
            lc = v.args[0]
            it = lc.generators[0].iter
            return isinstance(it, ast.Call) and call_name(it) == "emitter_sorted" and it.args and whole(it.args[0])
        return False

    n = 0
    for a in ast.walk(fn):
        if isinstance(a, ast.Assign) and len(a.targets) == 1 and isinstance(a.targets[0], ast.Name) and a.targets[0].id in returned:
            n += 1
            if whole(a.value):
                ctx.ok("distinct.source", m, a, what="iso_finder result: one de-duplicated batch / slice / re-ordering")
            else:
                ctx.fail("distinct.source", m, a,
                         f"iso_finder builds its result as `{short(a.value, 90)}`: that is not one whole automorph_check batch (nor a slice / "
                         f"emitter_sorted re-ordering of one); matrices that occur in both parts are returned twice, and more matrices than there "
                         f"are distinct relabellings can come back", func="iso_finder", construct="iso_finder: result glued from separately de-duplicated batches")
    if n == 0:
        raise AnalysisError("iso_finder: no assignment of the returned array")
    # (b) membership tests before append
    sites = 0
    for f in [x for x in m.tree.body if isinstance(x, ast.FunctionDef)]:
        for c in calls_in(f):
            if call_name(c) != "check_isomorphism" or len(c.args) < 2:
                continue
            iff = parent(c)
            while iff is not None and not isinstance(iff, (ast.If, ast.FunctionDef)):
                iff = parent(iff)
            if not isinstance(iff, ast.If):
                continue
            cand = norm(c.args[0])
            apps = [x for x in ast.walk(iff) if isinstance(x, ast.Call) and call_attr(x) == "append" and x.args and norm(x.args[0]) == cand]
            for ap in apps:
                sites += 1
                ctx.touch(m, f)
                if norm(c.args[1]) == norm(ap.func.value):
                    ctx.ok("distinct.source", m, c, what=f"{f.name}: candidate tested against the whole `{norm(ap.func.value)}`")
                else:
                    ctx.fail("distinct.source", m, c,
                             f"{f.name} appends `{cand}` to `{norm(ap.func.value)}` after testing it only against `{short(c.args[1], 60)}`: a graph "
                             f"already in the part that is not looked at is appended again", func=f.name,
                             construct=f"{f.name}: duplicate test against part of {norm(ap.func.value)}")
    if sites == 0:
        raise AnalysisError("relabel_module: no check_isomorphism-guarded append found")
    # (c) an explorer that de-duplicates has no *other*, untested way into its list: every further append to that list is the
    # "repetitions allowed" alternative of a tested one (the else-arm of the `if` that holds the tested append)
    for f in [x for x in m.tree.body if isinstance(x, ast.FunctionDef)]:
        tested = []
        for c in calls_in(f):
            if call_name(c) != "check_isomorphism" or len(c.args) < 2:
                continue
            iff = parent(c)
            while iff is not None and not isinstance(iff, (ast.If, ast.FunctionDef)):
                iff = parent(iff)
            if isinstance(iff, ast.If):
                for x in ast.walk(iff):
                    if isinstance(x, ast.Call) and call_attr(x) == "append" and x.args and norm(x.args[0]) == norm(c.args[0]):
                        tested.append(x)
        if not tested:
            continue
        lists = {norm(t.func.value) for t in tested}
        for ap in [x for x in calls_in(f) if call_attr(x) == "append" and norm(x.func.value) in lists and not any(x is t for t in tested)]:
            alt = False
            q = ap
            while parent(q) is not None and parent(q) is not f:
                pq = parent(q)
                if isinstance(pq, ast.If):
                    mine, other_arm = (pq.orelse, pq.body) if any(q is b for b in pq.orelse) else (pq.body, pq.orelse) if any(q is b for b in pq.body) else (None, None)
                    if other_arm and any(any(t is y for y in ast.walk(ast.Module(body=other_arm, type_ignores=[]))) for t in tested):
                        alt = True
                q = pq
            if alt:
                ctx.ok("distinct.source", m, ap, what=f"{f.name}: untested append is the repetitions-allowed alternative of a tested one")
            else:
                ctx.fail("distinct.source", m, ap,
                         f"{f.name} de-duplicates the graphs it finds with check_isomorphism, but `{short(ap)}` puts a graph into `{norm(ap.func.value)}` without that "
                         f"test: when this graph equals (or is isomorphic to) one already listed, the result lists it twice", func=f.name,
                         construct=f"{f.name}: untested append to {norm(ap.func.value)}")


# --------------------------------------------------------------------------- node.common-order


def rule_common_node_order(ctx: Ctx, sites) -> None:
    """node.common-order: a method that answers a question about two *labelled* graphs (same vertex set) from their adjacency matrices lays
    both matrices out in one node order: the same `nodelist=` expression (or sorted(...) on both) is handed to both nx.to_numpy_array
    calls.  Each graph's own insertion order describes a relabelled graph, and neither equality nor LC equivalence is invariant under
    relabelling one side."""
    repo = ctx.repo
    for rel, q in sites:
        m = repo.module(rel)
        fn = repo.anchor(rel, q)
        ctx.touch(m, fn)
        arrs = [c for c in calls_in(fn) if (call_name(c) or "").split(".")[-1] in ("to_numpy_array", "adjacency_matrix", "to_numpy_matrix")]
        if len(arrs) != 2:
            raise AnalysisError(f"{q}: the two adjacency matrices were not found")
        lists = [get_kw(c, "nodelist") for c in arrs]
        c1, c2 = (norm(x) if x is not None else None for x in lists)
        # a nodelist that is None on some path (node sets differ: positional fallback) still counts when both calls receive the same name
        # the common order may be given up (None: each graph in its own order) only when the two node sets differ — that is the positional reading
        # for differently named graphs; any other way to None (an exception handler, a size test) compares equal labelled graphs as relabelled ones
        lost = None
        if c1 is not None and c1 == c2 and isinstance(lists[0], ast.Name):
            for a in ast.walk(fn):
                if isinstance(a, ast.Assign) and any(isinstance(t_, ast.Name) and t_.id == lists[0].id for t_ in a.targets) \
                        and isinstance(a.value, ast.Constant) and a.value.value is None:
                    g = parent(a)
                    ok_ = False
                    while g is not None and g is not fn:
                        if isinstance(g, ast.If) and any(a is x for st in g.body for x in ast.walk(st)):
                            tt = [x for x in ast.walk(g.test) if isinstance(x, ast.Compare) and len(x.ops) == 1 and isinstance(x.ops[0], ast.NotEq)
                                  and norm(x.left).startswith("set(") and norm(x.comparators[0]).startswith("set(")]
                            if tt and not (isinstance(g.test, ast.BoolOp) and isinstance(g.test.op, ast.Or)):
                                ok_ = True
                        if isinstance(g, ast.ExceptHandler):
                            ok_ = False
                            break
                        g = parent(g)
                    if not ok_:
                        lost = a
        if lost is not None:
            g = parent(lost)
            where = "an exception handler" if isinstance(g, ast.ExceptHandler) else f"`{short(g.test, 50)}`" if isinstance(g, ast.If) else "a path"
            ctx.fail("node.common-order", m, lost,
                     f"{q} gives up the common node order (`{short(lost)}`) under {where}, not because the node sets differ: on that path two equal labelled graphs "
                     f"built in different insertion orders are compared as differently labelled graphs", func=q, construct=f"{q}: common node order dropped")
        elif c1 is not None and c1 == c2 or (c1 is not None and c2 is not None and c1.startswith("sorted(") and c2.startswith("sorted(")):
            ctx.ok("node.common-order", m, arrs[0], what=f"{q}: both adjacency matrices in one common node order")
        else:
            ctx.fail("node.common-order", m, arrs[1],
                     f"{q} builds the two adjacency matrices without a common nodelist: each graph is laid out in its own insertion order, so two equal "
                     f"labelled graphs whose nodes were added in a different order are compared as differently labelled graphs (a graph is then reported "
                     f"not LC-equivalent to itself)", func=q, construct=f"{q}: no common node order")


# --------------------------------------------------------------------------- distinct.prefix-set


def rule_prefix_set(ctx: Ctx) -> None:
    """distinct.prefix-set: depth_first_orbit replays complementation sequences from the input graph.  The depth-first paths share their
    opening stretches, so the sequences that are replayed are the *distinct* prefixes of the paths: they are collected in a set, and the
    result gets exactly one graph per element of that set (one append per sequence, after the whole sequence was applied).  Appending along
    every path instead lists the graphs of a shared opening stretch once per path."""
    repo = ctx.repo
    m = repo.module(RELABEL)
    fn = repo.anchor(RELABEL, "depth_first_orbit")
    ctx.touch(m, fn)
    rets = [r for r in ast.walk(fn) if isinstance(r, ast.Return) and isinstance(r.value, ast.Name)]
    if len(rets) != 1:
        raise AnalysisError("depth_first_orbit: returned list not found")
    L = rets[0].value.id
    sets = {a.targets[0].id for a in ast.walk(fn) if isinstance(a, ast.Assign) and isinstance(a.targets[0], ast.Name)
            and (isinstance(a.value, (ast.Set, ast.SetComp)) or (isinstance(a.value, ast.Call) and isinstance(a.value.func, ast.Name) and a.value.func.id == "set"))}
    apps = [c for c in calls_in(fn) if call_attr(c) == "append" and norm(c.func.value) == L]
    if not apps:
        raise AnalysisError("depth_first_orbit: no append to the returned list")
    for ap in apps:
        loops = []
        q = ap
        while parent(q) is not None and q is not fn:
            q = parent(q)
            if isinstance(q, (ast.For, ast.While)):
                loops.append(q)
        if len(loops) == 1 and isinstance(loops[0], ast.For) and norm(loops[0].iter) in sets:
            ctx.ok("distinct.prefix-set", m, ap, what="one graph per distinct operation sequence")
        else:
            over = norm(loops[-1].iter) if loops and isinstance(loops[-1], ast.For) else "?"
            ctx.fail("distinct.prefix-set", m, ap,
                     f"depth_first_orbit appends to `{L}` inside {len(loops)} nested loop(s) over `{short(loops[-1].iter, 40) if loops and isinstance(loops[-1], ast.For) else '?'}`"
                     f" instead of once per element of a set of distinct prefixes: the depth-first paths share their opening stretches, so those graphs are listed once "
                     f"per path (the 5-vertex path: 19 graphs returned, 10 different)", func="depth_first_orbit", construct="depth_first_orbit: graphs appended along every path")


# --------------------------------------------------------------------------- iso.input-first


def rule_iso_input_first(ctx: Ctx) -> None:
    """iso.input-first: automorph_check puts the input first (the first label sequence is the identity).  The array iso_finder returns stays
    in that order: a slice keeps the first element, a re-ordering (emitter_sorted, sorted, a reversal, a shuffle) does not, unless the first
    element is pinned (`[X[0]] + reorder(X[1:])`)."""
    repo = ctx.repo
    m = repo.module(RELABEL)
    fn = repo.anchor(RELABEL, "iso_finder")
    ctx.touch(m, fn)
    returned = set()
    for r in ast.walk(fn):
        if isinstance(r, ast.Return) and r.value is not None:
            v = r.value.elts[0] if isinstance(r.value, ast.Tuple) else r.value
            while isinstance(v, ast.Subscript):
                v = v.value
            if isinstance(v, ast.Name):
                returned.add(v.id)
    n = 0
    for a in ast.walk(fn):
        if isinstance(a, ast.Assign) and len(a.targets) == 1 and isinstance(a.targets[0], ast.Name) and a.targets[0].id in returned:
            n += 1
            t = norm(a.value)
            reorders = [w for w in ("emitter_sorted(", "sorted(", "np.sort(", "[::-1]", "shuffle(", "np.flip(", "reversed(") if w in t]
            pinned = any(isinstance(x, ast.Subscript) and norm(x.slice) == "0" and isinstance(x.value, ast.Name) and x.value.id in returned for x in ast.walk(a.value)) \
                and "[1:" in t
            if reorders and not pinned:
                ctx.fail("iso.input-first", m, a,
                         f"iso_finder re-orders its result with `{short(a.value, 80)}`: the input graph, which automorph_check puts first, ends up wherever its own "
                         f"labelling ranks (a path labelled 3-0-5-1-4-2, n_iso = 30, sort_emit=True: not first for 5 of 10 seeds)", func="iso_finder",
                         construct="iso_finder: result re-ordered without pinning the input")
            else:
                ctx.ok("iso.input-first", m, a, what="order of the de-duplicated batch kept")
    if n == 0:
        raise AnalysisError("iso_finder: no assignment of the returned array")


# --------------------------------------------------------------------------- iso.bounded


def rule_iso_bounded(ctx: Ctx) -> None:
    """iso.bounded: iso_finder never returns more matrices than requested.  Every return hands back `X[:n_iso]`, or a name whose last
    assignment before the return (same block, no re-binding in between) is such a slice, or — inside the search loop
    `while len(X) < n_iso ...` — the array as it was when the loop condition was tested (no re-binding of X earlier in that iteration)."""
    repo = ctx.repo
    m = repo.module(RELABEL)
    fn = repo.anchor(RELABEL, "iso_finder")
    ctx.touch(m, fn)
    N = func_params(fn)[1]

    def is_cut(e):
        return isinstance(e, ast.Subscript) and isinstance(e.slice, ast.Slice) and e.slice.lower is None and e.slice.upper is not None \
            and norm(e.slice.upper) == N and e.slice.step is None

    n = 0
    for r in [x for x in ast.walk(fn) if isinstance(x, ast.Return) and x.value is not None]:
        v = r.value.elts[0] if isinstance(r.value, ast.Tuple) and r.value.elts else r.value
        n += 1
        if is_cut(v):
            ctx.ok("iso.bounded", m, r, what="returns X[:n_iso]")
            continue
        if not isinstance(v, ast.Name):
            ctx.fail("iso.bounded", m, r, f"iso_finder returns `{short(v)}`, which is not cut to the {N} requested matrices", func="iso_finder",
                     construct="iso_finder: unbounded return")
            continue
        # walk back through the enclosing blocks
        ok = False
        q = r
        while parent(q) is not None and q is not fn and not ok:
            blk = parent(q)
            for name in ("body", "orelse", "finalbody"):
                body = getattr(blk, name, None)
                if isinstance(body, list) and any(q is b for b in body):
                    before = body[:[i for i, b in enumerate(body) if b is q][0]]
                    last = None
                    for st in before:
                        for a in ast.walk(st):
                            if isinstance(a, ast.Assign) and any(isinstance(t, ast.Name) and t.id == v.id for t in a.targets):
                                last = (a, st)
                    if last is not None:
                        a, st = last
                        # the cut must be unconditional in this block (a top-level statement of it), not inside a nested if
                        ok = is_cut(a.value) and a is st
                        q = fn      # decided either way: stop climbing
                        break
                    if isinstance(blk, ast.While) and name == "body":
                        t = norm(blk.test)
                        if (f"len({v.id}) < {N}" in t or f"{N} > len({v.id})" in t) and isinstance(blk.test, (ast.BoolOp, ast.Compare)) and \
                                (not isinstance(blk.test, ast.BoolOp) or isinstance(blk.test.op, ast.And)):
                            ok = True
                            q = fn
                            break
            else:
                q = blk
                continue
            break
        if ok:
            ctx.ok("iso.bounded", m, r, what=f"`{v.id}` is cut to {N} (or shorter by the loop condition) when returned")
        else:
            ctx.fail("iso.bounded", m, r,
                     f"iso_finder returns `{v.id}` on a path where it was not cut to `[:{N}]`: the enlarging search loop can overshoot, and more matrices than "
                     f"requested come back", func="iso_finder", construct="iso_finder: unbounded return")
    if n == 0:
        raise AnalysisError("iso_finder: no return")


# --------------------------------------------------------------------------- cmp.labelled-graphs


def rule_labelled_equality(ctx: Ctx) -> None:
    """cmp.labelled-graphs: the explorers' "is this graph already in the list" test for labelled graphs (_equal_graphs) compares the two
    adjacency *structures* entry by entry in one common node order.  nx.utils.graphs_equal also compares edge attributes (every graph
    produced by local_comp_graph carries weight=1.0, an nx.path_graph does not), nx.is_isomorphic forgets the labels, and two
    nx.to_numpy_array calls without a common nodelist put each graph in its own insertion order."""
    repo = ctx.repo
    m = repo.module(RELABEL)
    fn = repo.anchor(RELABEL, "_equal_graphs")
    ctx.touch(m, fn)
    g1, g2 = func_params(fn)[:2]
    bad = [c for c in calls_in(fn) if (call_name(c) or "").split(".")[-1] in ("graphs_equal", "is_isomorphic", "could_be_isomorphic")]
    if bad:
        which = (call_name(bad[0]) or "").split(".")[-1]
        ctx.fail("cmp.labelled-graphs", m, bad[0],
                 f"_equal_graphs decides equality with `{short(bad[0])}`: " +
                 ("that also compares edge attribute dictionaries, and every output of local_comp_graph carries weight=1.0 while a plain input graph "
                  "does not, so a walk that returns to the input graph is not recognised and the input is listed twice"
                  if which == "graphs_equal" else "that ignores the labels, so different labelled graphs of one isomorphism class are merged"),
                 func="_equal_graphs", construct=f"_equal_graphs: {which}")
        return
    arrs = [c for c in calls_in(fn) if (call_name(c) or "").split(".")[-1] in ("to_numpy_array", "adjacency_matrix", "to_numpy_matrix")]
    if len(arrs) != 2:
        raise AnalysisError("_equal_graphs: the two adjacency matrices were not found")
    lists = [get_kw(c, "nodelist") for c in arrs]
    defs = {a.targets[0].id: a.value for a in ast.walk(fn) if isinstance(a, ast.Assign) and len(a.targets) == 1 and isinstance(a.targets[0], ast.Name)}

    def canon(e):
        if e is None:
            return None
        if isinstance(e, ast.Name) and e.id in defs:
            e = defs[e.id]
        return norm(e)
    c1, c2 = canon(lists[0]), canon(lists[1])
    same_order = c1 is not None and c1 == c2
    sorted_each = c1 is not None and c2 is not None and c1.startswith("sorted(") and c2.startswith("sorted(")
    if same_order or sorted_each:
        ctx.ok("cmp.labelled-graphs", m, arrs[0], what="both adjacency matrices in one common node order")
    else:
        ctx.fail("cmp.labelled-graphs", m, arrs[1],
                 "_equal_graphs builds the two adjacency matrices without a common nodelist: each graph is laid out in its own insertion order, while "
                 "local_comp_graph returns its graphs in sorted node order — an input whose nodes were not added in sorted order is never recognised "
                 "again and is listed twice", func="_equal_graphs", construct="_equal_graphs: no common node order")


def rule_member_search(ctx: Ctx) -> None:
    """distinct.member-search: check_isomorphism(graph, g_list) answers "is some member of g_list equal / isomorphic to graph": an
    existential search over the *whole* list.  Accepted shapes: a flag set (or `return True`) under `if check(graph, g)` inside the loop over
    g_list with False after it, or `any(check(graph, g) for g in g_list)`; a cheap pre-filter may be and-ed to the test or guard it with
    `continue`.  A `return check(graph, g)` inside the loop lets the first (filtered) member decide for all later ones, so a duplicate of a
    later member is admitted as new."""
    repo = ctx.repo
    m = repo.module(RELABEL)
    fn = repo.anchor(RELABEL, "check_isomorphism")
    ctx.touch(m, fn)
    ps = func_params(fn)
    G, L = ps[0], ps[1]
    checks = {"check"} | {norm(a.targets[0]) for a in ast.walk(fn) if isinstance(a, ast.Assign) and isinstance(a.value, ast.IfExp)}
    loops = [l for l in ast.walk(fn) if isinstance(l, ast.For) and any(isinstance(x, ast.Name) and x.id == L for x in ast.walk(l.iter))]

    def is_check(e, v):
        return isinstance(e, ast.Call) and (norm(e.func) in checks or norm(e.func) in ("_equal_graphs", "nx.is_isomorphic")) and \
            sorted(norm(a) for a in e.args[:2]) == sorted([G, v])
    anyform = [c for c in ast.walk(fn) if isinstance(c, ast.Call) and call_name(c) == "any" and c.args and isinstance(c.args[0], (ast.GeneratorExp, ast.ListComp))
               and any(isinstance(x, ast.Name) and x.id == L for x in ast.walk(c.args[0].generators[0].iter))]
    if anyform and not loops:
        ctx.ok("distinct.member-search", m, anyform[0], what="any(check(graph, g) for g in g_list)")
        return
    if len(loops) != 1 or not isinstance(loops[0].target, ast.Name):
        raise AnalysisError("check_isomorphism: the search loop over the list was not found")
    l = loops[0]
    v = l.target.id
    early = [r for r in ast.walk(l) if isinstance(r, ast.Return) and r.value is not None and any(is_check(x, v) for x in ast.walk(r.value))]
    if early:
        ctx.fail("distinct.member-search", m, early[0],
                 f"check_isomorphism returns `{short(early[0].value)}` from inside the loop over `{L}`: the first member that reaches this statement decides, "
                 f"later members are never compared, so lc_orbit_finder admits a graph equal / isomorphic to a later entry of its orbit list as new",
                 func="check_isomorphism", construct="check_isomorphism: first candidate decides")
        return
    hits = [i for i in ast.walk(l) if isinstance(i, ast.If) and any(is_check(x, v) for x in ast.walk(i.test))]
    good = False
    for i in hits:
        neg = any(isinstance(u, ast.UnaryOp) and isinstance(u.op, ast.Not) and any(is_check(x, v) for x in ast.walk(u)) for u in ast.walk(i.test))
        if neg or isinstance(i.test, ast.BoolOp) and isinstance(i.test.op, ast.Or):
            continue
        sets_true = any((isinstance(st, ast.Return) and isinstance(st.value, ast.Constant) and st.value.value is True) or
                        (isinstance(st, ast.Assign) and isinstance(st.value, ast.Constant) and st.value.value is True) for st in i.body)
        good = good or sets_true
    if good:
        ctx.ok("distinct.member-search", m, l, what="every member of the list is compared until one matches")
    else:
        raise AnalysisError("check_isomorphism: the shape of the membership search was not recognised")
