"""Independent model of the 1- and 2-qubit Clifford group modulo global phase (pure Python).

An element is identified by its conjugation action on the Pauli generators (signed Pauli images), computed
from small complex matrices.  Only composition and comparison are offered: this is the checker's own oracle,
it never calls graphiq.
"""
from __future__ import annotations

import cmath
import itertools
from typing import Dict, List, Sequence, Tuple

Mat = List[List[complex]]

S2 = 2 ** -0.5


def mm(a: Mat, b: Mat) -> Mat:
    n, k, p = len(a), len(b), len(b[0])
    return [[sum(a[i][t] * b[t][j] for t in range(k)) for j in range(p)] for i in range(n)]


def dag(a: Mat) -> Mat:
    return [[a[j][i].conjugate() for j in range(len(a))] for i in range(len(a[0]))]


def kron(a: Mat, b: Mat) -> Mat:
    return [[a[i][j] * b[k][l] for j in range(len(a[0])) for l in range(len(b[0]))]
            for i in range(len(a)) for k in range(len(b))]


def eye(n: int) -> Mat:
    return [[1 + 0j if i == j else 0j for j in range(n)] for i in range(n)]


I2: Mat = eye(2)
X: Mat = [[0, 1], [1, 0]]
Y: Mat = [[0, -1j], [1j, 0]]
Z: Mat = [[1, 0], [0, -1]]
H: Mat = [[S2, S2], [S2, -S2]]
P: Mat = [[1, 0], [0, 1j]]
PD: Mat = [[1, 0], [0, -1j]]

PAULI1 = {"I": I2, "X": X, "Y": Y, "Z": Z}


def close(a: Mat, b: Mat, tol: float = 1e-9) -> bool:
    return all(abs(a[i][j] - b[i][j]) < tol for i in range(len(a)) for j in range(len(a[0])))


def scale(a: Mat, s: complex) -> Mat:
    return [[s * v for v in row] for row in a]


def paulis(n: int) -> Dict[str, Mat]:
    out: Dict[str, Mat] = {}
    for names in itertools.product("IXYZ", repeat=n):
        m = PAULI1[names[0]]
        for c in names[1:]:
            m = kron(m, PAULI1[c])
        out["".join(names)] = m
    return out


def key(u: Mat) -> Tuple[str, ...]:
    """Element modulo phase: signed Pauli images of X_i, Z_i.  Raises ValueError if ``u`` is not Clifford."""
    n = {2: 1, 4: 2}[len(u)]
    ps = paulis(n)
    gens = []
    for i in range(n):
        for g in "XZ":
            gens.append("".join(g if j == i else "I" for j in range(n)))
    out = []
    ud = dag(u)
    for g in gens:
        img = mm(mm(u, ps[g]), ud)
        found = None
        for name, p in ps.items():
            if close(img, p):
                found = "+" + name
            elif close(img, scale(p, -1)):
                found = "-" + name
        if found is None:
            raise ValueError("not a Clifford element")
        out.append(found)
    return tuple(out)


def prod(ms: Sequence[Mat]) -> Mat:
    out = eye(len(ms[0])) if ms else I2
    for m in ms:
        out = mm(out, m)
    return out


def equal_mod_phase(a: Mat, b: Mat) -> bool:
    # find a reference non-zero entry
    for i in range(len(a)):
        for j in range(len(a[0])):
            if abs(b[i][j]) > 1e-9:
                if abs(a[i][j]) < 1e-9:
                    return False
                ph = a[i][j] / b[i][j]
                return abs(abs(ph) - 1) < 1e-9 and close(a, scale(b, ph))
    return False


def is_unitary(a: Mat) -> bool:
    return close(mm(a, dag(a)), eye(len(a)))


# two-qubit gates, qubit order (control, target) = (first, second) tensor factor
P0: Mat = [[1, 0], [0, 0]]
P1: Mat = [[0, 0], [0, 1]]


def controlled(g: Mat) -> Mat:
    a, b = kron(P0, I2), kron(P1, g)
    return [[a[i][j] + b[i][j] for j in range(4)] for i in range(4)]


CNOT = controlled(X)
CZ = controlled(Z)
CY = controlled(Y)


def on_first(g: Mat) -> Mat:
    return kron(g, I2)


def on_second(g: Mat) -> Mat:
    return kron(I2, g)


GATE1 = {"I": I2, "H": H, "P": P, "P_dag": PD, "X": X, "Y": Y, "Z": Z}

# class names of graphiq.circuit.ops -> model element (the names denote these unitaries by definition)
OPCLASS = {"Identity": I2, "Hadamard": H, "Phase": P, "PhaseDagger": PD, "SigmaX": X, "SigmaY": Y, "SigmaZ": Z}

ALL24 = None


def all24() -> List[Tuple[str, ...]]:
    """The 24 elements of the single-qubit Clifford group mod phase, generated from H and P."""
    global ALL24
    if ALL24 is None:
        seen = {key(I2): I2}
        frontier = [I2]
        while frontier:
            nxt = []
            for m in frontier:
                for g in (H, P):
                    c = mm(g, m)
                    k = key(c)
                    if k not in seen:
                        seen[k] = c
                        nxt.append(c)
            frontier = nxt
        ALL24 = sorted(seen)
        assert len(ALL24) == 24
    return ALL24


# GL(2,2): binary symplectic action on (x,z) of one qubit, phase-free
def gf2_mm(a, b):
    return [[sum(a[i][t] * b[t][j] for t in range(2)) % 2 for j in range(2)] for i in range(2)]


def gf2_invertible(a) -> bool:
    return (a[0][0] * a[1][1] - a[0][1] * a[1][0]) % 2 == 1
