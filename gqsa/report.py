"""Obligation / finding bookkeeping, known-findings matching, evidence and replay files."""
from __future__ import annotations

import hashlib
import json
import os
import time
from dataclasses import dataclass, field
from typing import Any, Dict, List, Optional

from .core import AnalysisError, Module, Repo, norm, qualname, short

VERIF = os.path.dirname(os.path.dirname(os.path.abspath(__file__)))


@dataclass
class Finding:
    prop: str
    rule: str
    file: str
    func: str
    construct: str  # normalised construct text (never a line number)
    message: str
    line: int = 0
    chain: List[str] = field(default_factory=list)  # reasoning chain
    advisory: bool = False

    @property
    def key(self) -> str:
        return f"{self.rule}|{self.file}|{self.func}|{self.construct}"

    def to_json(self) -> Dict[str, Any]:
        return {
            "property": self.prop,
            "rule": self.rule,
            "file": self.file,
            "line": self.line,
            "function": self.func,
            "construct": self.construct,
            "message": self.message,
            "chain": self.chain,
            "key": self.key,
        }


@dataclass
class RuleStats:
    obligations: int = 0
    discharged: int = 0
    samples: List[str] = field(default_factory=list)
    floor: Optional[int] = None
    sites: set = field(default_factory=set)


class Ctx:
    """Per-run context for one property."""

    def __init__(self, repo: Repo, prop: str, tier: str = "quick", seed: int = 0, only_key: Optional[str] = None):
        self.repo = repo
        self.prop = prop
        self.tier = tier
        self.seed = seed
        self.findings: List[Finding] = []
        self.advisories: List[Finding] = []
        self.rules: Dict[str, RuleStats] = {}
        self.functions_analysed: set = set()
        self.modules_analysed: set = set()
        self.notes: List[str] = []
        self.assumptions: List[str] = []
        self.only_key = only_key
        self.extra: Dict[str, Any] = {}

    # ---- bookkeeping
    def rs(self, rule: str) -> RuleStats:
        return self.rules.setdefault(rule, RuleStats())

    def touch(self, m: Module, fn=None) -> None:
        self.modules_analysed.add(m.rel)
        if fn is not None:
            self.functions_analysed.add(f"{m.rel}::{qualname(fn)}")

    def floor(self, rule: str, n: int) -> None:
        """Declare the instance floor confirmed by hand for ``rule``."""
        self.rs(rule).floor = n

    def ok(self, rule: str, m: Module, node, what: str = "") -> None:
        """Record a discharged obligation at a site."""
        st = self.rs(rule)
        st.obligations += 1
        st.discharged += 1
        site = f"{m.rel}::{qualname(node) if node is not None else ''}::{short(node, 120) if node is not None else what}"
        st.sites.add(site)
        if len(st.samples) < 6:
            st.samples.append((what + " @ " if what else "") + site)
        self.touch(m)

    def ok_abstract(self, rule: str, what: str) -> None:
        st = self.rs(rule)
        st.obligations += 1
        st.discharged += 1
        st.sites.add(what)
        if len(st.samples) < 6:
            st.samples.append(what)

    def fail(
        self,
        rule: str,
        m: Module,
        node,
        message: str,
        chain: Optional[List[str]] = None,
        construct: Optional[str] = None,
        func: Optional[str] = None,
        advisory: bool = False,
    ) -> Finding:
        st = self.rs(rule)
        f = Finding(
            prop=self.prop,
            rule=rule,
            file=m.rel,
            func=func if func is not None else (qualname(node) if node is not None else "<module>"),
            construct=construct if construct is not None else short(node, 200),
            message=message,
            line=getattr(node, "lineno", 0) if node is not None else 0,
            chain=chain or [],
            advisory=advisory,
        )
        if advisory:
            self.advisories.append(f)
            return f
        st.obligations += 1
        st.sites.add(f.key)
        self.touch(m)
        # de-duplicate identical keys (same construct reported twice)
        if not any(x.key == f.key for x in self.findings):
            self.findings.append(f)
        return f

    def note(self, s: str) -> None:
        self.notes.append(s)

    def assume(self, s: str) -> None:
        if s not in self.assumptions:
            self.assumptions.append(s)

    def check_floors(self) -> None:
        for rule, st in self.rules.items():
            # the hand-confirmed count minus 30 % slack: moderate refactors must not trip the guard, a vanished anchor must
            if st.floor is not None and st.obligations < max(1, int(0.7 * st.floor)):
                raise AnalysisError(
                    f"rule {rule}: only {st.obligations} instances analysed, floor confirmed by hand is {st.floor} "
                    f"(anchor moved or idiom no longer recognised)"
                )
        for rule, st in self.rules.items():
            if st.obligations == 0:
                raise AnalysisError(f"rule {rule}: matched zero sites (vacuous)")


# --------------------------------------------------------------------------- known findings


def load_known(path: Optional[str] = None) -> List[Dict[str, Any]]:
    path = path or os.path.join(VERIF, "known_findings.json")
    if not os.path.exists(path):
        return []
    with open(path) as fh:
        txt = fh.read()
    if not txt.strip():
        return []
    return json.loads(txt).get("findings", [])


def match_known(f: Finding, known: List[Dict[str, Any]]) -> Optional[Dict[str, Any]]:
    for k in known:
        if k.get("status") != "known":
            continue  # 'fixed' entries suppress nothing
        if k.get("property") == f.prop and k.get("key") == f.key:
            return k
    return None


# --------------------------------------------------------------------------- output


def write_replay(f: Finding, repo_root: str) -> str:
    d = os.path.join(VERIF, "replay")
    os.makedirs(d, exist_ok=True)
    h = hashlib.sha1(f.key.encode()).hexdigest()[:12]
    p = os.path.join(d, f"{f.prop}-{f.rule.replace('.', '_')}-{h}.json")
    with open(p, "w") as fh:
        json.dump({"repo": repo_root, **f.to_json()}, fh, indent=1)
    return p


def write_evidence(ctx: Ctx, wall: float, n_viol: int, known_matched: List[str], selftest: Optional[Dict] = None,
                   explanation: str = "", path: Optional[str] = None) -> str:
    d = os.path.join(VERIF, "evidence")
    os.makedirs(d, exist_ok=True)
    path = path or os.path.join(d, f"{ctx.prop}.json")
    obligations = sum(st.obligations for st in ctx.rules.values())
    discharged = sum(st.discharged for st in ctx.rules.values())
    distinct = len({s for st in ctx.rules.values() for s in st.sites})
    samples = []
    for rule, st in sorted(ctx.rules.items()):
        for s in st.samples[:3]:
            samples.append({"rule": rule, "site": s})
    cov = {
        "explanation": explanation,
        "evaluations": obligations,
        "distinct_nontrivial": distinct,
        "rule": "one evaluation = one (rule, site) obligation decided on /repo's current source; distinct = distinct "
                "(rule, file, function, normalised construct) keys with a non-empty slot",
        "samples": samples,
        "obligations": obligations,
        "discharged": discharged,
        "per_rule": {
            r: {"obligations": st.obligations, "discharged": st.discharged, "floor": st.floor}
            for r, st in sorted(ctx.rules.items())
        },
        "modules_analysed": sorted(ctx.modules_analysed),
        "functions_analysed": len(ctx.functions_analysed),
        "known_findings_matched": known_matched,
        "advisories": [f"{a.rule}: {a.file}::{a.func}: {a.message}" for a in ctx.advisories],
        "notes": ctx.notes,
        "exhaustive": False,
    }
    cov.update(ctx.extra)
    if selftest is not None:
        cov["selftest"] = selftest
    ev = {
        "property_id": ctx.prop,
        "tier": ctx.tier,
        "seed": ctx.seed,
        "level": "other",
        "coverage": cov,
        "assumptions": ctx.assumptions
        or ["the structural clauses are necessary conditions of the property; the numerical behaviour is not decided"],
        "wall_s": round(wall, 3),
        "violations": n_viol,
    }
    with open(path, "w") as fh:
        json.dump(ev, fh, indent=1)
        fh.write("\n")
    return path
