"""Syntax-directed flow over the statement kinds the repository uses.

``run(body, step, state0)`` abstractly executes a statement list over a finite
set of abstract states.  ``step(stmt, state) -> state`` is applied to every
*simple* statement (and to the header expression of compound statements, passed
as an ``ast.Expr`` wrapper) in execution order.  The result separates the states
at fall-through, at ``return`` and at ``raise``.

Loops are over-approximated: the body may run zero or more times (iterated to a
fixpoint over the finite state set); ``break``/``continue`` leave the loop body
with the current state.
"""
from __future__ import annotations

import ast
from dataclasses import dataclass, field
from typing import Callable, FrozenSet, Hashable, Iterable, List, Set


@dataclass
class Out:
    fall: Set[Hashable] = field(default_factory=set)
    ret: Set[Hashable] = field(default_factory=set)
    exc: Set[Hashable] = field(default_factory=set)
    brk: Set[Hashable] = field(default_factory=set)
    cont: Set[Hashable] = field(default_factory=set)


Step = Callable[[ast.AST, Hashable], Hashable]


def _hdr(expr: ast.AST) -> ast.AST:
    return expr


def run(body: List[ast.stmt], step: Step, states: Iterable[Hashable]) -> Out:
    out = Out()
    cur: Set[Hashable] = set(states)
    for st in body:
        if not cur:
            break
        nxt: Set[Hashable] = set()
        if isinstance(st, ast.If):
            cur = {step(st.test, s) for s in cur}
            a = run(st.body, step, cur)
            b = run(st.orelse, step, cur) if st.orelse else Out(fall=set(cur))
            for o in (a, b):
                nxt |= o.fall
                out.ret |= o.ret
                out.exc |= o.exc
                out.brk |= o.brk
                out.cont |= o.cont
        elif isinstance(st, (ast.For, ast.AsyncFor, ast.While)):
            hdr = st.iter if isinstance(st, (ast.For, ast.AsyncFor)) else st.test
            entry = {step(hdr, s) for s in cur}
            seen: Set[Hashable] = set(entry)
            work = set(entry)
            exit_states: Set[Hashable] = set(entry)  # zero iterations
            while work:
                o = run(st.body, step, work)
                out.ret |= o.ret
                out.exc |= o.exc
                exit_states |= o.brk
                again = o.fall | o.cont
                if isinstance(st, ast.While):
                    again = {step(st.test, s) for s in again}
                exit_states |= again
                work = again - seen
                seen |= again
            if st.orelse:
                o = run(st.orelse, step, exit_states)
                nxt |= o.fall
                out.ret |= o.ret
                out.exc |= o.exc
            else:
                nxt |= exit_states
        elif isinstance(st, (ast.With, ast.AsyncWith)):
            for it in st.items:
                cur = {step(it.context_expr, s) for s in cur}
            o = run(st.body, step, cur)
            nxt |= o.fall
            out.ret |= o.ret
            out.exc |= o.exc
            out.brk |= o.brk
            out.cont |= o.cont
        elif isinstance(st, ast.Try):
            o = run(st.body, step, cur)
            after: Set[Hashable] = set()
            if st.orelse:
                oe = run(st.orelse, step, o.fall)
                after |= oe.fall
                out.ret |= oe.ret
                out.exc |= oe.exc
            else:
                after |= o.fall
            out.ret |= o.ret
            out.brk |= o.brk
            out.cont |= o.cont
            # a handler may start from any state reachable inside the body (approx: entry + body results)
            h_in = set(cur) | o.fall | o.exc
            for h in st.handlers:
                oh = run(h.body, step, h_in)
                after |= oh.fall
                out.ret |= oh.ret
                out.exc |= oh.exc
                out.brk |= oh.brk
                out.cont |= oh.cont
            if not st.handlers:
                out.exc |= o.exc
            if st.finalbody:
                of = run(st.finalbody, step, after)
                nxt |= of.fall
                out.ret |= of.ret
                out.exc |= of.exc
            else:
                nxt |= after
        elif isinstance(st, ast.Return):
            out.ret |= {step(st, s) for s in cur}
        elif isinstance(st, ast.Raise):
            out.exc |= {step(st, s) for s in cur}
        elif isinstance(st, ast.Break):
            out.brk |= cur
        elif isinstance(st, ast.Continue):
            out.cont |= cur
        elif isinstance(st, (ast.FunctionDef, ast.AsyncFunctionDef, ast.ClassDef)):
            nxt |= cur
        elif isinstance(st, ast.Match):
            subj = {step(st.subject, s) for s in cur}
            nxt |= subj  # no case may match
            for c in st.cases:
                o = run(c.body, step, subj)
                nxt |= o.fall
                out.ret |= o.ret
                out.exc |= o.exc
                out.brk |= o.brk
                out.cont |= o.cont
        else:
            nxt = {step(st, s) for s in cur}
        cur = nxt
    out.fall |= cur
    return out


def contains_call(node: ast.AST, pred: Callable[[ast.Call], bool]) -> bool:
    for n in ast.walk(node):
        if isinstance(n, ast.Call) and pred(n):
            return True
    return False


def must_pass(body: List[ast.stmt], pred: Callable[[ast.AST], bool], include_return: bool = True) -> bool:
    """True iff every normally completing (fall-through / return) path through ``body``
    executes a statement/expression for which ``pred`` holds.  Paths ending in ``raise`` are vacuous."""

    def step(node, s):
        return s or bool(pred(node))

    o = run(body, step, {False})
    ends = set(o.fall) | (o.ret if include_return else set()) | o.brk | o.cont
    return False not in ends


def count_on_paths(body: List[ast.stmt], pred: Callable[[ast.AST], int], cap: int = 3) -> Set[int]:
    """Set of possible numbers (capped) of ``pred`` events over all normally completing paths."""

    def step(node, s):
        return min(cap, s + int(pred(node)))

    o = run(body, step, {0})
    return set(o.fall) | set(o.ret) | set(o.brk) | set(o.cont)


def all_paths_return_value(fn: ast.FunctionDef) -> List[ast.stmt]:
    """Return [] if no normally completing path falls off the end of a function that elsewhere
    returns a value; otherwise the list of last statements where control can fall off."""
    returns_value = any(isinstance(n, ast.Return) and n.value is not None and not (
        isinstance(n.value, ast.Constant) and n.value.value is None) for n in _walk_fn(fn))
    if not returns_value:
        return []
    o = run(fn.body, lambda n, s: s, {0})
    return [fn.body[-1]] if o.fall else []


def _walk_fn(fn):
    stack = list(fn.body)
    while stack:
        n = stack.pop()
        yield n
        if isinstance(n, (ast.FunctionDef, ast.AsyncFunctionDef, ast.Lambda, ast.ClassDef)):
            continue
        stack.extend(ast.iter_child_nodes(n))
