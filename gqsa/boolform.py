"""Decision tables of comparison code.

A comparator answers "equal" exactly when every field it looks at agrees.  Its code is a handful of if / return statements whose
tests are boolean combinations of *atoms* (`a.f == b.f`, `a.f != b.f`, `type(a) is type(b)`, isinstance guards ...).  The atoms are
treated as free boolean variables, the statements are evaluated for every assignment of them (at most a few hundred rows; nothing
of graphiq is run), and the resulting table is compared with what a comparator must satisfy.  Working on the table rather than on
the text makes the verdict independent of De Morgan rewrites, early returns vs. one big conjunction, `!=`-and-return-False vs.
`==`-and-continue, operand order, and local names."""
from __future__ import annotations

import ast
import itertools
from typing import Callable, Dict, List, Optional, Tuple

from .core import norm


class Undecidable(Exception):
    pass


class Atom:
    def __init__(self, key: str, pair: Optional[str]):
        self.key = key          # canonical text
        self.pair = pair        # for a "same field of both operands" equality: the field text with the operand replaced by '@'; else None

    def __repr__(self):
        return f"Atom({self.key})"


def _swap_names(text: str, a: str, b: str) -> str:
    import re
    return re.sub(rf"\b({re.escape(a)}|{re.escape(b)})\b", lambda m_: b if m_.group(1) == a else a, text)


def _pair_field(l: ast.AST, r: ast.AST) -> Optional[str]:
    """if l and r are the same expression over two different names (op1.x vs op2.x), the expression with the name replaced by '@'"""
    ln = {x.id for x in ast.walk(l) if isinstance(x, ast.Name)}
    rn = {x.id for x in ast.walk(r) if isinstance(x, ast.Name)}
    for a in ln - rn:
        for b in rn - ln:
            if _swap_names(norm(l), a, b) == norm(r):
                import re
                return re.sub(rf"\b{re.escape(a)}\b", "@", norm(l))
    return None


def _strip_cast(e: ast.AST) -> ast.AST:
    while isinstance(e, ast.Call) and isinstance(e.func, ast.Attribute) and e.func.attr in ("astype", "copy", "flatten", "tolist") :
        e = e.func.value
    return e


class Table:
    def __init__(self):
        self.atoms: Dict[str, Atom] = {}

    def atom(self, key: str, pair: Optional[str] = None) -> str:
        if key not in self.atoms:
            self.atoms[key] = Atom(key, pair)
        return key

    # -- formulas are closures assignment -> bool
    def formula(self, e: ast.AST, env: Dict[str, Callable]) -> Callable:
        if isinstance(e, ast.Constant) and isinstance(e.value, bool):
            v = e.value
            return lambda a: v
        if isinstance(e, ast.Name) and e.id in env:
            return env[e.id]
        if isinstance(e, ast.UnaryOp) and isinstance(e.op, ast.Not):
            f = self.formula(e.operand, env)
            return lambda a: not f(a)
        if isinstance(e, ast.BoolOp):
            fs = [self.formula(v, env) for v in e.values]
            if isinstance(e.op, ast.And):
                return lambda a: all(f(a) for f in fs)
            return lambda a: any(f(a) for f in fs)
        if isinstance(e, ast.Compare):
            parts = []
            left = e.left
            for op, right in zip(e.ops, e.comparators):
                if isinstance(op, (ast.Eq, ast.Is, ast.NotEq, ast.IsNot)):
                    sides = sorted([norm(left), norm(right)])
                    k = self.atom(" == ".join(sides), _pair_field(left, right))
                    neg = isinstance(op, (ast.NotEq, ast.IsNot))
                    parts.append((k, neg))
                else:
                    k = self.atom(norm(ast.Compare(left=left, ops=[op], comparators=[right])))
                    parts.append((k, False))
                left = right
            return lambda a: all((not a[k]) if neg else a[k] for k, neg in parts)
        if isinstance(e, ast.Call):
            fn_ = norm(e.func)
            # numpy equality predicates over two operands: one pair atom
            if fn_ in ("np.array_equal", "np.allclose", "np.isclose", "numpy.array_equal", "np.array_equiv") and len(e.args) >= 2:
                l_, r_ = _strip_cast(e.args[0]), _strip_cast(e.args[1])
                sides = sorted([norm(l_), norm(r_)])
                k = self.atom(" == ".join(sides), _pair_field(l_, r_))
                return lambda a: a[k]
            if fn_ in ("np.all", "all", "bool", "np.alltrue") and len(e.args) == 1 and isinstance(e.args[0], (ast.Compare, ast.BoolOp, ast.UnaryOp, ast.Call)):
                inner = e.args[0]
                if isinstance(inner, ast.Compare):
                    inner = ast.Compare(left=_strip_cast(inner.left), ops=inner.ops, comparators=[_strip_cast(c_) for c_ in inner.comparators])
                return self.formula(inner, env)
        if isinstance(e, ast.Call) and isinstance(e.func, ast.Name) and e.func.id == "all" and len(e.args) == 1 and isinstance(e.args[0], (ast.List, ast.Tuple)):
            fs = [self.formula(v, env) for v in e.args[0].elts]
            return lambda a: all(f(a) for f in fs)
        if isinstance(e, ast.Call) and isinstance(e.func, ast.Name) and len(e.args) == 2 and not e.keywords \
                and e.func.id not in ("isinstance", "issubclass", "zip", "max", "min", "divmod", "getattr", "hasattr"):
            # both operands handed whole to a helper (`same_registers(op1, op2)`): one atom that stands for whatever the helper compares
            pfw = _pair_field(e.args[0], e.args[1])
            import re as _re
            if pfw is not None and _re.fullmatch(r"@(\[[^\]]*\])*", pfw):
                k = self.atom(norm(e), f"helper:{e.func.id}")
                return lambda a: a[k]
        k = self.atom(norm(e))
        return lambda a: a[k]

    def outcomes(self, stmts: List[ast.stmt], env: Optional[Dict[str, Callable]] = None):
        """function assignment -> ('return', bool) | ('return', None) | ('fall', None)"""
        env = dict(env or {})
        prog = self._compile(stmts, env)
        return prog

    def _compile(self, stmts, env):
        steps = []
        for st in stmts:
            if isinstance(st, ast.Expr) and isinstance(st.value, ast.Constant):
                continue
            if isinstance(st, ast.Pass):
                continue
            if isinstance(st, ast.Assign) and len(st.targets) == 1 and isinstance(st.targets[0], ast.Name):
                v = st.value
                if isinstance(v, (ast.BoolOp, ast.Compare, ast.UnaryOp)) or (isinstance(v, ast.Constant) and isinstance(v.value, bool)):
                    env[st.targets[0].id] = self.formula(v, env)
                continue
            if isinstance(st, ast.If):
                test = self.formula(st.test, env)
                body = self._compile(st.body, env)
                orelse = self._compile(st.orelse, env)
                steps.append(("if", test, body, orelse))
                continue
            if isinstance(st, ast.Return):
                if isinstance(st.value, ast.Constant) and isinstance(st.value.value, bool):
                    steps.append(("ret", st.value.value))
                elif st.value is not None and isinstance(st.value, (ast.BoolOp, ast.Compare, ast.UnaryOp, ast.Name)):
                    steps.append(("retf", self.formula(st.value, env)))
                else:
                    steps.append(("ret", None))
                continue
            if isinstance(st, (ast.Continue,)):
                steps.append(("cont",))
                continue
            if isinstance(st, ast.Raise):
                steps.append(("raise",))
                continue
            if isinstance(st, ast.Assert):
                t_ = self.formula(st.test, env)
                steps.append(("if", t_, (lambda a: ("fall", None)), (lambda a: ("raise", None))))
                continue
            if isinstance(st, (ast.For, ast.While, ast.With, ast.Try)):
                raise Undecidable(f"statement `{type(st).__name__}` inside a decision block")
            # other statements (calls, assignments of non-boolean values) do not decide anything
        def run(a, steps=steps):
            for s in steps:
                if s[0] == "if":
                    r = (s[2] if s[1](a) else s[3])(a)
                    if r[0] != "fall":
                        return r
                elif s[0] == "ret":
                    return ("return", s[1])
                elif s[0] == "retf":
                    return ("return", bool(s[1](a)))
                elif s[0] == "cont":
                    return ("continue", None)
                elif s[0] == "raise":
                    return ("raise", None)
            return ("fall", None)
        return run

    def rows(self):
        keys = sorted(self.atoms)
        if len(keys) > 12:
            raise Undecidable(f"{len(keys)} atoms")
        for vals in itertools.product((True, False), repeat=len(keys)):
            yield dict(zip(keys, vals))
