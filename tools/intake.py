#!/usr/bin/env python3
"""Confirm a candidate seeded change and file it under /verif/seeded/<id>/.

  tools/intake.py <candidate-dir> <seed-id> <property> [--no-suite]

candidate-dir holds patch.diff, demo.py, notes.md (written by an independent sub-agent).  Steps, all in a scratch git
worktree of /repo's HEAD outside /repo and /verif (removed afterwards):
  1. demo.py on the clean tree must exit 0;  2. `git apply patch.diff` must succeed and the package must still import;
  3. demo.py on the changed tree must exit non-zero;  4. the 246 baseline-stable tests must still pass with the change.
On success the files are copied to /verif/seeded/<seed-id>/ with a meta.json recording what was run."""
import json, os, shutil, subprocess, sys, tempfile, time, xml.etree.ElementTree as ET
HERE = os.path.dirname(os.path.dirname(os.path.abspath(__file__)))
cand, sid, prop = sys.argv[1:4]
suite = "--no-suite" not in sys.argv
wt = tempfile.mkdtemp(prefix="gqsa_intake_")
subprocess.check_call(["git", "-C", "/repo", "worktree", "add", "-f", "--detach", wt, "HEAD", "-q"])
ran = []
def run(cmd, **kw):
    t = time.time()
    r = subprocess.run(cmd, cwd=wt, capture_output=True, text=True, **kw)
    ran.append({"cmd": " ".join(cmd) if isinstance(cmd, list) else cmd, "exit": r.returncode, "s": round(time.time() - t, 1)})
    return r
ok = False
try:
    shutil.copy(os.path.join(cand, "demo.py"), os.path.join(wt, "_seed_demo.py"))
    env = dict(os.environ, PYTHONPATH=wt, MPLBACKEND="Agg")
    r0 = run(["/venv/bin/python", "_seed_demo.py"], env=env, timeout=600)
    if r0.returncode != 0:
        print("REJECT: demo fails on the clean tree\n", r0.stdout[-600:], r0.stderr[-600:]); sys.exit(1)
    a = run(["git", "apply", os.path.abspath(os.path.join(cand, "patch.diff"))])
    if a.returncode != 0:
        print("REJECT: patch does not apply", a.stderr[-400:]); sys.exit(1)
    imp = run(["/venv/bin/python", "-c", "import graphiq, graphiq.solvers, graphiq.metrics, graphiq.utils.circuit_comparison"], env=env, timeout=300)
    if imp.returncode != 0:
        print("REJECT: package no longer imports", imp.stderr[-400:]); sys.exit(1)
    r1 = run(["/venv/bin/python", "_seed_demo.py"], env=env, timeout=600)
    if r1.returncode == 0:
        print("REJECT: demo still passes with the change"); sys.exit(1)
    print("demo: clean exit 0, changed exit", r1.returncode, "|", (r1.stdout + r1.stderr).strip().splitlines()[-1][:160] if (r1.stdout + r1.stderr).strip() else "")
    missing = []
    if suite:
        base = json.load(open("/root/.vp/BASELINE.json"))["stable_pass"]
        os.remove(os.path.join(wt, "_seed_demo.py"))
        jx = os.path.join(wt, "_junit.xml")
        # exactly the baseline command (whole suite, same order: some tests draw from the global RNG without seeding)
        t = run(["/venv/bin/python", "-m", "pytest", "-ra", "-q", "-p", "no:cacheprovider", "--timeout=900", "--continue-on-collection-errors",
                 f"--junitxml={jx}"], timeout=5400)
        passed = set()
        for tc in ET.parse(jx).iter("testcase"):
            if not any(ch.tag in ("failure", "error", "skipped") for ch in tc):
                passed.add(f"{tc.get('classname')}::{tc.get('name')}")
        missing = sorted(set(base) - passed)
        print("baseline-stable tests passing with the change:", len(set(base) & passed), "of", len(base))
        if missing:
            print("REJECT: the change breaks existing tests:", missing[:5]); sys.exit(1)
    dst = os.path.join(HERE, "seeded", sid)
    os.makedirs(dst, exist_ok=True)
    for f in ("patch.diff", "demo.py"):
        shutil.copy(os.path.join(cand, f), os.path.join(dst, f))
    notes = open(os.path.join(cand, "notes.md")).read() if os.path.exists(os.path.join(cand, "notes.md")) else ""
    meta = {"property": prop, "source": "independent sub-agent given only the property text and a scratch worktree",
            "repo_commit": subprocess.check_output(["git", "-C", "/repo", "rev-parse", "--short", "HEAD"], text=True).strip(),
            "needs_to_manifest": notes.strip()[:3000], "confirmed": {"demo_clean_exit": 0, "demo_changed_exit": r1.returncode,
            "baseline_stable_tests_pass_with_change": (len(json.load(open('/root/.vp/BASELINE.json'))['stable_pass']) if suite else "not run")},
            "what_was_run": ran}
    json.dump(meta, open(os.path.join(dst, "meta.json"), "w"), indent=1)
    print("KEPT as", dst)
    ok = True
finally:
    subprocess.call(["git", "-C", "/repo", "worktree", "remove", "--force", wt])
    shutil.rmtree(wt, ignore_errors=True)
sys.exit(0 if ok else 1)
