#!/usr/bin/env python3
"""Compare a junit xml with BASELINE.json stable_pass: tools/cmp_baseline.py <junit.xml>"""
import json, sys, xml.etree.ElementTree as ET
base = set(json.load(open('/root/.vp/BASELINE.json'))['stable_pass'])
t = ET.parse(sys.argv[1])
passed = set()
for tc in t.iter('testcase'):
    ok = not any(ch.tag in ('failure', 'error', 'skipped') for ch in tc)
    name = f"{tc.get('classname')}::{tc.get('name')}"
    if ok:
        passed.add(name)
print("baseline", len(base), "passed-now", len(passed), "baseline-missing", sorted(base - passed))
print("newly passing:", len(passed - base))
