"""Claims per property (source for MANIFEST.json).  Keep in sync with gqsa/props/*.py and DESIGN.md §5."""

NOTES = ("Technique family: static analysis only. Each check decides structural necessary-condition clauses of its "
         "property (listed in DESIGN.md §5.x) on /repo's current source; it does not decide the numerical behaviour. "
         "Exit 0 = all obligations discharged (KNOWN-FINDING lines for entries of known_findings.json), exit 1 + "
         "VIOLATION = unlisted finding, exit 2 + ANALYSIS-ERROR = anchor vanished / shape not recognised. "
         "thorough = same rules + knock-out self-validation (each rule instance broken by one in-memory edit must be "
         "reported).")

PENDING = "check not built yet (build in progress; see DESIGN.md §5 for the planned structural clauses)"

CLAIMS = {
    "C01": {
        "text": "Decides structural necessary conditions of 'both backends implement the circuit's textbook semantics': "
                "dispatch reachability/coverage of every accepted op class in both compile_one_gate hooks, q_index "
                "attribute pairing and control/target/measure roles at every backend call, classical-record store and "
                "measure-then-reset must-pass-through per branch, determinism forwarding and mapping, outcome==1 "
                "conditioning, photons-before-emitters index map, in-order compile loop over a topological sequence, "
                "all-|0> default initial data, and agreement of op class / stabilizer method / dm matrix as elements of "
                "a finite Clifford model. Holds for all circuits because the rules quantify over code paths, not inputs. "
                "Does not decide the tableau / density-matrix arithmetic.",
        "ref": "DESIGN.md §5.1",
        "note": "Trusted: primitives hadamard_gate/phase_gate/cnot_gate, get_two_qubit_controlled_gate, "
                "z_measurement_gate, reset_z, Kraus reset are correct as named; role table of backend primitives "
                "(confirmed by reading).",
        "technique": "static analysis: dispatch-chain reachability over the class hierarchy, call-site role binding, "
                     "must-pass-through flow, finite-group effect summaries",
    },
    "C07": {
        "text": "Decides structural necessary conditions of 'the tableau stays a valid tableau of the right state under any "
                "history': size/storage fields are written only by the tableau classes and always together; phase vectors "
                "are never indexed by a column-only (qubit) position; np.insert/np.delete on phase vectors are in range "
                "under the function's asserts, address the destabilizer/stabilizer halves n_qubits apart and agree with the "
                "table-row deletions; sign-oblivious row operations never touch tableau matrices without the phase vector, "
                "row_sum receives and returns the sign vector; derived gates compose (finite Clifford model) to the "
                "elements their names denote; Stabilizer/MixedStabilizer wrappers agree. All paths of all API functions, "
                "hence every history. Does not decide the H/P/CNOT column formulas, row_sum arithmetic or symplecticity.",
        "ref": "DESIGN.md §5.7",
        "note": "Trusted: hadamard_gate, phase_gate, cnot_gate, row_sum, g_function as named; phase-vector length per module "
                "(clifford.py: 2n, stabilizer.py: n) from the module docstrings.",
        "technique": "static analysis: field-ownership (who-may-write) lint, index-kind inference from use, linear "
                     "worst-case index bounds under asserted preconditions, finite-group effect summaries",
    },
}

NA = {f"C{i:02d}": PENDING for i in range(1, 21)}

CLAIMS["C17"] = {
    "text": "Decides structural necessary conditions of correct dm fidelity / trace distance / partial trace: every "
            "transpose of a possibly complex matrix in density_matrix/functions.py and state.py is a conjugate transpose; "
            "partial_trace's einsum repeats the label of each dropped axis (trace, not sum); no function in the exact "
            "call-graph closure of fidelity, trace_distance, partial_trace, Infidelity.evaluate, TraceDistance.evaluate "
            "raises a Warning class on the value path; the two metrics convert a copy of the state and pair target data "
            "with state data. These hold for all inputs because they are properties of the expressions themselves. "
            "Does not decide symmetry, range, Uhlmann value, Fuchs-van de Graaf, or cross-representation equality.",
    "ref": "DESIGN.md §5.17",
    "note": "Trusted: numpy's einsum/eigh semantics; matrices other than integer index arrays are treated as possibly complex.",
    "technique": "static analysis: expression-shape lint (adjoint composition, einsum label repetition), exact call-graph "
                 "closure for raise sites, alias check for copy-before-convert",
}

CLAIMS["C18"] = {
    "text": "Decides structural necessary conditions of 'each cost metric equals its definition, including with default "
            "arguments': every attribute evaluate() reads is definitely assigned on every path of the constructor chain; the "
            "literal label lists that drive counting are duplicate-free, made of unitary gate classes and cover every unitary "
            "class both compilers accept; every label literal is produced by some class name / add_labels / register-type "
            "description (a misspelt label silently counts nothing); label lookups cannot raise KeyError; rewrites inside a "
            "metric act on a copy. Quantifies over all constructor and evaluate paths, hence all circuits. Does not decide "
            "that depth, _max_depth and reg_gate_history compute the graph quantities.",
    "ref": "DESIGN.md §5.18",
    "note": "Trusted: CircuitDAG.depth/_max_depth/reg_gate_history as named. One named exception: Metrics.weighting_func "
            "(advisory; unsupported argument type only).",
    "technique": "static analysis: definite-assignment flow over constructor chains, literal-table lint against the "
                 "class hierarchy and the label vocabulary, guard-dominance check, copy-before-mutate alias check",
}

CLAIMS["C08"] = {
    "text": "Decides structural necessary conditions of state-preserving conversions: no conversion function can fall off its "
            "end on a path while returning a value on others; state_to_graph's tuple returns agree on (graph, tableau, gates) "
            "order; QuantumState.convert_representation's table has all nine ordered pairs, each value's name encodes its key "
            "and each helper delegates to the same-named converter; float inverses/determinants used for GF(2) solves are "
            "rounded before mod 2 at the site with a known failing input (other sites of the idiom are advisory). All paths, "
            "hence all inputs. Does not decide that conversions yield |G>, the negativity threshold or Hadamard-position "
            "heuristics, or _phase_correction's signs.",
    "ref": "DESIGN.md §5.8",
    "note": "Trusted: the converters' numerics. The name-encodes-key convention of QuantumState's helpers is the repository's own.",
    "technique": "static analysis: all-paths-return flow, return-tuple role agreement, dispatch-table exhaustiveness, "
                 "float-to-GF(2) rounding taint rule",
}

CLAIMS["C09"] = {
    "text": "Narrow claim: decides structural necessary conditions only — the GL(2,2) name table of local_clifford_ops is "
            "exhaustive, duplicate-free and self-consistent; name tokens are emitted rightmost-first; every gate tag that the "
            "LC machinery can emit is handled by run_circuit; lc_check inverts non-self-inverse tags to their Clifford inverse "
            "and reverses the list; Graph.local_complementation has exactly the toggle shape over neighbour pairs. Finite "
            "tables are enumerated completely. Does not decide soundness/completeness of is_lc_equivalent (incl. the "
            "pairwise-sum shortcut for large solution spaces), the R-matrix reduction, or local_comp_graph's matrix formula.",
    "ref": "DESIGN.md §5.9",
    "note": "Trusted: the table's own single-token rows as generators (repository convention: name = left-to-right product of "
            "its row-vector symplectic matrices); is_lc_equivalent's linear algebra.",
    "technique": "static analysis: literal-table constant folding + finite-group model, token-direction check, "
                 "producer/consumer vocabulary inclusion, exact syntactic shape of the toggle loop",
}

CLAIMS["C10"] = {
    "text": "Decides structural necessary conditions: the default lc_method is in solve()'s accepted set; every numpy "
            "attribute used by relabel_module exists in the installed numpy; per LC graph exactly one circuit and one score "
            "are appended on every path, results are assembled with one common index, the relabel map and the LC check use "
            "this iteration's iso graph; emitted gate tags are handled by str_to_op and its name table pairs names with the "
            "classes denoting the same Clifford. Does not decide that each circuit generates the relabelled target, LC "
            "equivalence of the listed graph, or completeness of duplicate removal.",
    "ref": "DESIGN.md §5.10",
    "note": "Trusted: TimeReversedSolver (C02), lc_check (C09), iso_finder/orbit explorers (C16).",
    "technique": "static analysis: default-in-accepted-domain check over a dispatch chain, installed-stub API existence, "
                 "exactly-once path counting, vocabulary inclusion with a finite Clifford model",
}

CLAIMS["C16"] = {
    "text": "Decides structural necessary conditions: provenance closure of every orbit explorer (each result element is the "
            "input, its copy, or local_comp_graph of a closure element; greatest-fixpoint over all assignments), "
            "automorph_check records only relabel(input, ·), de-duplicated via a set, input first and once; iso_finder's "
            "returns are bounded by n_iso; numpy attributes exist in the installed numpy. Holds for all seeds/thresholds "
            "because it is over all paths. Does not decide that relabel realises (p(u),p(v)), that get_relabel_map is an "
            "isomorphism, or distinctness for explorers without de-duplication.",
    "ref": "DESIGN.md §5.16",
    "note": "Trusted: local_comp_graph implements local complementation; networkx GraphMatcher.",
    "technique": "static analysis: provenance-closure dataflow (greatest fixpoint), return-bound check, installed-stub API existence",
}

CLAIMS["C14"] = {
    "text": "Decides structural necessary conditions of the export/import round trip: JSON writer and reader tables are "
            "mutually inverse and name every accepted operation class; every openQASM gate name an exporting class writes "
            "maps back to that class in the importer's table, multi-line idiom keys exist, wrapper-member names are single "
            "letters (the importer splits by letter); a wrapper's composite gate body is written in application order while "
            "its name keeps list order; property setters used by from_json keep every __init__-derived register field in "
            "sync; no set is iterated on the export path. Per operation class and per table row, exhaustively. Known "
            "findings (parameterised gates; 'sdg' inside wrappers) are listed in known_findings.json. Does not decide "
            "parser correctness on arbitrary text or equality of compiled states.",
    "ref": "DESIGN.md §5.14",
    "note": "Trusted: openQASM 2.0 semantics 'gate body statements apply first to last'; the parser's regexes.",
    "technique": "static analysis: writer/reader table inversion, exporter-name extraction from the *_info functions, "
                 "direction calculus on accumulation loops, setter/derived-field coherence over the class hierarchy",
}

CLAIMS["C15"] = {
    "text": "Decides structural necessary conditions of a sound, symmetric comparison: every comparator predicate compares exact "
            "type, q_registers_type, params (and q_registers for register-by-register methods) of the two operations "
            "symmetrically; control/target edge roles are produced for every operation class that has a control and a "
            "target; every method reachable from compare_circuits compares normalised copies (copy, unwrap_nodes, "
            "remove_identity on every path) and never rewrites or annotates its inputs; redundancy filters delegate on "
            "copies. All comparator functions, all paths. Does not decide completeness of the relation beyond normalisation.",
    "ref": "DESIGN.md §5.15",
    "note": "Trusted: networkx is_isomorphic / graph_edit_distance; the attribute set {type, q_registers, q_registers_type, "
            "params} is what the compilers read to build a gate (confirmed in C01's hooks).",
    "technique": "static analysis: symmetric-field extraction from comparator predicates, class-hierarchy cover of an "
                 "isinstance test, must-pass-through normalisation on copies (alias check)",
}

CLAIMS["C04"] = {
    "text": "Decides the structural clauses of the emission constraints, which are structural by nature: all two-qubit "
            "constructors in graphiq/solvers/ are emitter-controlled; emitter->photon operations placed at initialisation are "
            "labelled 'Fixed' before insertion; remove_op / replace_* / add_* moves filter their candidates as the property "
            "requires (Fixed/Input/Output excluded, wrapper->wrapper on the same register, photon edges filtered by the "
            "operation at edge[0], emitter edges only) and each move is followed by validate(); TimeReversedSolver inserts at "
            "the front of the wire with the emission CNOT last on its photon; its result is the evaluated (score, circuit "
            "copy). All constructor sites and moves, hence all seeds and move histories. Does not decide that "
            "find_incompatible_edges is a sufficient cycle filter (validate() is the runtime guard).",
    "ref": "DESIGN.md §5.4",
    "note": "Assumption recorded in evidence: inverse_circuit's gate indices are >= n_photon once the two photonic-block asserts hold. "
            "Named exception: EvolutionarySolver.add_measurement_cnot_and_reset adds a removable (non-initial) measure-and-reset.",
    "technique": "static analysis: constructor-argument lint (who-may-create), typestate (label before insert), "
                 "filter-shape checks on comprehensions, statement-order / dominance checks",
}

CLAIMS["C19"] = {
    "text": "Decides structural necessary conditions of reproducibility and honest results: randomness only from the two global "
            "generators seeded by SolverBase.seed; no set iterated into an ordered result in the solver modules (hash-seed "
            "dependence); hall of fame / next population / seeded population / perturbed circuits hold copies, insert-pop-break "
            "shape; score provenance (validate -> compile(circuit) -> evaluate(state, circuit) -> store with the same circuit, "
            "no mutation in between) and result = hof[0]. Over all paths, hence all seeds, settings and generations. Does not "
            "decide hall-of-fame ordering / monotone best score (np.isclose tolerance).",
    "ref": "DESIGN.md §5.19",
    "note": "Trusted: numpy/random global generators are deterministic given a seed; int-only sets (label queries) iterate "
            "deterministically (advisory in circuit_dag label helpers).",
    "technique": "static analysis: who-may-call lint for entropy sources, set-type inference + iteration lint, "
                 "copy/alias check at storage sites, statement-order provenance check",
}

CLAIMS["C20"] = {
    "text": "Decides the finite part exhaustively and the ordering part structurally: the 6x4 composition table, read from the "
            "syntax tree and interpreted by an independent single-qubit Clifford model under 'list = matrix product', is "
            "exactly the 24-element group (complete, closed, pairwise inequivalent mod phase); name->matrix bindings "
            "constant-fold to the denoted elements; every consumer of a wrapper list implements 'last listed acts first' "
            "(unwrap reversed; matrix accumulations in list order; a@b paired with a+b; merge as existing+new); neither "
            "compiler accepts the wrapper itself; the lookup rejects by falling through to raise. Does not decide "
            "check_equivalent_unitaries numerically.",
    "ref": "DESIGN.md §5.20",
    "note": "Trusted: class names Identity/Hadamard/Phase/PhaseDagger/SigmaX/Y/Z denote the textbook unitaries (model side); "
            "numpy matmul; check_equivalent_unitaries.",
    "technique": "static analysis: constant folding of literal tables + finite-group model (exhaustive), direction calculus "
                 "over accumulation loops, accepted-table lint, all-returns-guarded check",
}

CLAIMS["C12"] = {
    "text": "Decides structural necessary conditions of DAG consistency under any edit history: package-wide, every raw "
            "networkx mutation of a circuit's .dag is paired with the matching node_dict/edge_dict update in the same "
            "CircuitDAG function (edge-attribute annotation is classified non-structural); add/remove/replace maintain the "
            "same three node_dict key kinds; register sizes are written only by the register-adding API; edge splitting and "
            "re-joining propagate key, reg and reg_type and remove exactly the split edge; sequence() is a topological order "
            "consumed in order. Rules are over all functions that can edit a circuit, hence all histories. Does not decide "
            "wire-is-a-single-path, sufficiency of find_incompatible_edges, or the depth recursion.",
    "ref": "DESIGN.md §5.12",
    "note": "Trusted: networkx MultiDiGraph semantics; nx.topological_sort.",
    "technique": "static analysis: ownership/pairing lint over the package (who-may-mutate), sibling key-kind agreement, "
                 "attribute-propagation check on edge splicing",
}

CLAIMS["C06"] = {
    "text": "Decides structural necessary conditions of physical, backend-independent, switchable noise: every supported model "
            "handles every representation the compile loop can hand it (class-hierarchy cover); with noise switched off, an "
            "empty map or NoNoise the noise code is unreachable (flag initialisation, monotone updates, ideal-gate-only arm, "
            "NoNoise defaults); sibling branches of one model use the same scaling factor / the shared factors array with the "
            "identity first; wrapper noise lists follow `operations` order; PauliError's tags are handled by run_circuit; the "
            "temporary noise swap in compile is restored on all paths. Over all circuits and noise maps since the rules are on "
            "code paths. Does not decide positivity, trace values or cross-backend fidelity equality numerically.",
    "ref": "DESIGN.md §5.6",
    "note": "Supported model set {DepolarizingNoise, PauliError, PhotonLoss} and representation set {DensityMatrix, "
            "MixedStabilizer, Stabilizer} are frozen from the property statement and CompilerBase.compile's `mixed=` expression.",
    "technique": "static analysis: dispatch cover over the class hierarchy, flag monotonicity / reachability check, sibling "
                 "factor agreement, direction calculus, save/restore flow pairing",
}

CLAIMS["C13"] = {
    "text": "Decides structural necessary conditions of 'library calls do not mutate their inputs' and of order-preserving "
            "rewrites: no in-place circuit/state mutator reaches a caller-supplied object at any read-only entry point "
            "(directly or through callees, summaries to a fixpoint over exact call edges) without a copy; no attribute store on "
            "an operation drawn from a circuit's sequence inside the entry points' call closure except on fresh copies or "
            "restored swaps; caller data is copied before entering a reference-keeping representation; unwrap_nodes / "
            "group_one_qubit_gates / noise lists respect 'last listed acts first'. One named advisory "
            "(TimeReversedSolver.__init__ converts its target in place; state-preserving for graph-state targets). "
            "Does not decide numerically that rewrites preserve the compiled state.",
    "ref": "DESIGN.md §5.13",
    "note": "Mutator set (CircuitDAG.add/insert_at/remove_op/replace_op/unwrap_nodes/remove_identity/group_one_qubit_gates, "
            "QuantumState.partial_trace/convert_representation, representation apply_*) frozen from the API by reading; "
            "by-name-only call candidates are not followed (exact edges only).",
    "technique": "static analysis: effect summaries over the call graph (fixpoint), intraprocedural alias classes "
                 "(param-derived / fresh / from-circuit), save/restore flow pairing, direction calculus",
}

CLAIMS["C05"] = {
    "text": "Narrow claim: decides only structural necessary conditions of exact comparison — tableau equality reads table and "
            "sign vectors; Stabilizer equality compares canonical forms of both sides; to_stabilizer carries the stabilizer "
            "half of the signs; all generator row operations carry the sign vector (own.rowops); inner_product's orthogonality "
            "exit reads both states' signs after reducing state 1 by its inverse circuit and canonicalising state 2; fidelity = "
            "|inner_product|^2. These are what 'distinguish states that differ only in the sign of a generator' needs and the "
            "suite's all-zero sign fixtures cannot show. Does not decide that inner_product equals <a|b>, symmetry, or "
            "uniqueness of the canonical form.",
    "ref": "DESIGN.md §5.5",
    "note": "Trusted: row_sum / g_function arithmetic; canonical_form's algorithm.",
    "technique": "static analysis: field-read extraction from equality predicates, sign-vector dataflow (phase-derived names), "
                 "row-operation ownership lint",
}

CLAIMS["C11"] = {
    "text": "Narrow claim: decides structural necessary conditions — run_circuit's forward function per tag denotes the tag's "
            "gate and its reverse function is the Clifford inverse (finite model), the list is reversed under reverse; derived "
            "gates compose to their named elements; in inverse_circuit every emitted tag is mirrored by the transform call "
            "run_circuit maps it to, on the same indices, and vice versa; emitted tags are all handled; row operations carry "
            "signs; clifford_from_stabilizer replays the inverse circuit backwards from |0..0>. Does not decide that the "
            "block-wise synthesis reaches |0..0> with positive signs for every tableau.",
    "ref": "DESIGN.md §5.11",
    "note": "Trusted: the three primitive gate updates; canonical_form.",
    "technique": "static analysis: dispatch-table extraction + finite-group inverse check, emit/apply mirror pairing per block, "
                 "vocabulary inclusion, row-operation ownership lint",
}

CLAIMS["C03"] = {
    "text": "Narrow claim: decides only structural necessary conditions — each photon is absorbed (hence emitted) exactly once on "
            "every path of the main loop and of _add_photon_absorption, with a single call site of the emission helper in the "
            "package; the emitter budget is max(height_func_list(rref(tableau))), used for the circuit, and no register is added "
            "afterwards; height_func_list re-reduces its input to echelon gauge and has the linear normal form "
            "n-(k+1)-#{leftmost>k}. Does not decide that the height function equals the bipartite entropy, full gauge "
            "independence, or minimality.",
    "ref": "DESIGN.md §5.3",
    "note": "Trusted: rref, leftmost_nontrivial_index.",
    "technique": "static analysis: exactly-once path counting, who-may-call, symbolic inlining of straight-line provenance, "
                 "linear normal forms",
}

CLAIMS["C02"] = {
    "text": "Narrow claim: decides the solver's structural core invariant and nothing about its choice logic — in every "
            "statement block of TimeReversedSolver each tableau transformation is mirrored by its inverse (computed in a finite "
            "Clifford model for one-qubit gate lists; same control/target modulo the helper's index convention for CNOTs) "
            "inserted at the front of the same wire; _change_pauli_type's lists are inserted on the transformed qubit; the "
            "time-reversed measurement is the one frozen triple; _add_gates_from_str applies each tag's own gate and handles every "
            "tag inverse_circuit emits; insertions are at the front with the emission CNOT first on its wire; the result is "
            "(metric(compile(circuit)), copy) with validate() first. Does not decide that the choice logic reaches |0..0> for "
            "every graph, exactness of the generated state, or outcome independence.",
    "ref": "DESIGN.md §5.2",
    "note": "Trusted: the three primitive gate updates, rref / height choice logic, inverse_circuit (C11), compilers (C01). "
            "One frozen pattern (time-reversed measurement) with its reason in DESIGN §5.2.",
    "technique": "static analysis: per-block event pairing with a finite-group inverse check, linear normal forms for index "
                 "conventions, vocabulary inclusion, front-insertion and statement-order checks",
}


# Clauses added while testing the checks against independently seeded changes (DESIGN.md §9.5); appended to the claim text.
EXTRA = {
    "C01": "Also: gates written as a direct sign update are judged by the GF(2) truth table of their sign function against the Pauli "
           "commutation rules; a memoised operator's cache key contains every input the cached value depends on (cache.key-complete); the "
           "representation wrappers forward the determinism setting unchanged (0 is falsy); kron layout and reset-to-|0> shape. Round 2-3: dispatch by membership in a class-keyed table, branch bodies specialised per class, tolerance on computed outcome probabilities (num.prob-threshold), result caches / falsy-zero / swapped same-named arguments (generic rules). Bit formulas: hadamard_gate / phase_gate / cnot_gate interpreted over GF(2) polynomials of a generic row and compared with the conjugation tables of H, P, CNOT (prim.formula); g_function's 16-entry table (prim.g-table); row_sum's accumulation, linear phase form, mod 4, hi/lo split and add_rows direction (prim.row-sum); linalg column/row helper shapes (prim.helper). Generic rules (all properties, over every anchor file of the property): memo.sound, falsy.zero, arg.names-swapped, num.fixed-width (powers of two in 64-bit numpy integers), paste.incomplete (identifier left unrenamed in a mirrored statement), index.negative-start (position variable that starts negative and is used as a subscript), elim.no-pivot (elimination on the running diagonal without row exchange), chain.subject-drift (an isinstance chain tests one subject), type.isinstance-on-class (isinstance applied to a name bound to a class). Round 4: determinism branches with several literals are specialised per literal and the outcome's value set is folded ({0,1}); index.bit-order (bit of qubit q in a basis index is at n-1-q under the np.kron layout). noise.placement: the hook order of compile() for every point of a finite model (simulation flag x gate kind x noise kinds x after flags). Round 5: row_sum's phase term in vectorised form is evaluated for the sixteen Pauli pairs. Round 6: method-name tables (getattr dispatch) are read entry by entry; no raw register number reaches a backend primitive. Round 7: unwrap builds every gate on the wrapper's own register; a post-processing helper around the reversed list is left undecided. Round 9-10: unwrap() decided on a finite wrapper model (application order, noise carrier side, per-gate noise, own register); the pivot row reaches its destabilizer only after the elimination loop (measure.indices); a wrapper that receives the determinism setting forwards it to the measurement primitive.",
    "C02": "Also: the solver never hands a tableau it still needs to a consuming routine (effect.consumed-tableau); the first-element choices of "
           "emitter/generator lists are guarded (guarded-first, one known finding); inverse_circuit's Z-only pivot is the bottom-most candidate (pivot.choice). Generic rules as listed under C01. Round 4: rref case table, steps and loop (rref.classify / dispatch / step / loop). Round 5: block tests of inverse_circuit are unfolded after inlining single-return helpers; typestate.fixed / order.frontinsert follow helpers of the class. Round 6: index.space (emitter register number vs tableau position, inferred to a fixpoint); rref.inline-step; inverse.canonical-first; search.fallthrough (generic). Round 7: own.frontinsert (who may call the front-insertion helpers). Round 8: inverse.zpivot-h.",
    "C03": "Also: every return path's count derives from the row-reduced tableau and the reduction dominates the reads (a conditional reduction is "
           "reported as analysis-error, exit 2). Round 2-3: graph entry points use the graph's own node order; emitter_sorted takes its count from the whole graph; no identity-keyed result cache; any()/all() over index lists. Generic rules as listed under C01. Round 4: rref.classify / dispatch / step / loop and height.leftmost; one computed height per position (no early exit, no padding); an emitter count from an unknown algorithm is reported as undecided (exit 2), not as a violation. Round 6: rref.inline-step; sibling.xz-rowops; index.space; search.fallthrough. Round 8: height.max-whole. Round 10: every value height_max returns is computed from the height function (no shape-of-the-graph shortcut).",
    "C04": "Also: re-joined edges inherit key/register attributes (edge.keys). Round 2-3: reachability on the whole DAG (reach.whole-dag); emitter counter capped (budget.emitter-cap). Generic rules as listed under C01. Round 4: no measure-and-reset is appended before all emission CNOTs are in place (order.emission-first). Round 4+: validate.shape (acyclicity asserted; sources must be Input, sinks Output, polarity on the truth table); filter.literals (each move's edge filter implies the frozen literals, on its truth table). Round 5: 'Fixed' label before insertion is followed into helpers of the class; the noisy copy replays operations in topological order (order.topological on _slim_seq). Round 6: index.space. Round 7: move.edge-roles; own.frontinsert. Round 9: a one-qubit move builds its gate on the register of the edge it is inserted at (move.edge-roles); _remove_edge names the edge with its key.",
    "C05": "Also: scratch accumulator rows are rebuilt in every iteration (acc.fresh, reaching definitions over the back edge); Z-only pivot choice "
           "(pivot.choice); phase combination of row products (phase-combine). Round 2-3: storage arrays freshly allocated per field (own.fresh-storage); reduced echelon form over all rows (canon.reduced); elimination passes of inverse_circuit in order (inverse.blocks); every return of Stabilizer.__eq__; X-type test over the whole row. Round 3: Bit formulas: hadamard_gate / phase_gate / cnot_gate interpreted over GF(2) polynomials of a generic row and compared with the conjugation tables of H, P, CNOT (prim.formula); g_function's 16-entry table (prim.g-table); row_sum's accumulation, linear phase form, mod 4, hi/lo split and add_rows direction (prim.row-sum); linalg column/row helper shapes (prim.helper). Generic rules as listed under C01. Round 4+: elim.direction; eq.decision (truth table of StabilizerTableau / CliffordTableau __eq__); fid.shape structural (|inner_product|^2 in any equivalent form; int() of a float logarithm reported); known finding inverse.pivot-found. Round 5: vectorised row_sum phase term (prim.row-sum); block tests with inlined helpers; Infidelity returns 1 - F and its representation literals agree (metric.value); branch contribution is p_i * F(target, branch_i) (weight.fidelity). Round 6: sibling.xz-rowops; rref.inline-step; inverse.canonical-first. Round 7: fid.reduced-reference; emit.mirror armed here. Round 8: inverse.zpivot-h. Round 9-10: reverse.table / replay armed here (tableaux built from stabilizers replay the inverse circuit with reverse=True); row_sum roles in elimination loops; inverse_circuit never returns before its sign pass. Round 11: inner_product collects a generator's Z columns over every column (fid.z-support).",
    "C06": "Also: both noise placements of a controlled gate are applied (noise.both-applied, stale-swap-read); mixture weights are preserved (weight.preserve). Round 2-3: in-place edits through property getters reach the stored object (effect.getter-alias); temporary overwrites of an operation's fields are undone from a copy; measurement divides by the conditional probability; per-branch fidelities weighted; mixed-stabilizer gate methods agree with the pure ones. Generic rules as listed under C01. Round 4: the four per-qubit operations of each DepolarizingNoise branch are I, X, Y, Z with I first, whether given as gate functions, matrices or sign masks (noise.pauli-set). Round 4+: noise.placement (model-based hook order of compile()); noise.pauli-tags (tag -> applied Pauli per backend branch, tag domain folded); type.isinstance-on-class. Round 5: a clamp of an affine function of a noise strength is inactive on [0, 1] (num.saturating-strength); every one-qubit class incl. Identity reaches the branch applying op.noise (noise.single-applied); per-branch size reads during in-place resizes (size.stale-per-branch); metric.value; order.topological on _slim_seq. The _identify_noise map-key defect (#52) is printed as ADVISORY: it breaks no clause of this property. Round 7: dist.shape (pure-state shortcut of dmf.fidelity) armed here. Round 9: the wrapper-level noise carrier lands on the side its 'After gate' flag says (unwrap.order on the wrapper model). Round 11: the placement model reads the 'After gate' flag through .get as well (`x or True` evaluated as Python does).",
    "C07": "Also: measurement row sets / outcome use (measure.rowset, measure.outcome-used), destabilizer/stabilizer halves of sign vectors (num.halves). Round 2-3: project API existence (api.project); fresh storage; outcome reaches the signs on every path; falsy-zero positions. Bit formulas: hadamard_gate / phase_gate / cnot_gate interpreted over GF(2) polynomials of a generic row and compared with the conjugation tables of H, P, CNOT (prim.formula); g_function's 16-entry table (prim.g-table); row_sum's accumulation, linear phase form, mod 4, hi/lo split and add_rows direction (prim.row-sum); linalg column/row helper shapes (prim.helper). Generic rules as listed under C01. Round 4: num.rowcol follows loop aliases of the phase vectors and index lists built from column-only names; run_circuit's tag table (chain or dictionary dispatch) maps each tag to its gate and, reversed, to its inverse (reverse.table); a reset consults the measured outcome on every path (fix d7dc077); trace_out_* hands partial_trace the complement of its argument (fix d528b5f). Round 4+: measure.indices (linear forms of the Aaronson-Gottesman measurement), insert.layout, tensor.layout, eq.decision, determinism map. Round 5: measure.basis-restored is path-sensitive; reset_x / reset_y map Z to +X / +Y for both requested states (reset.basis); size.stale-per-branch (fix fe19a4d). Round 7: removal walk as a descending range with coverage of position 0; sequential single inserts into the sign vectors. Round 9: own.rowops reads row_sum's in-place sign update and the phase getter instead of demanding an assignment; in an elimination loop the pivot taken from the row set is the row to add; the destabilizer copy follows the elimination loop.",
    "C08": "Also: canonical-form comparisons compare canonical forms on both sides (canon.compare); node order of graph conversions (node.order). Round 2-3: kinds of values handed to dispatching converters (call.accepts); new representation computed from the current data; numpy view staleness; filtered-list positions vs labels; signs carried when tableaux are rebuilt (sign.carry); state equivalence on canonical forms; known finding: stabilizer_to_density ignores signs. Generic rules as listed under C01. Round 6: sibling.xz-rowops; convert.no-sign-precondition; node.order accepts a graph's own node order as nodelist. Round 7: conv.pauli-from-bits. Round 8: conv.inverse-side; graph.from-matrix. Round 10: state_to_graph applies its phase correction on every path through _graph_finder (flow.phase-correction); project_and_remove takes the complementary projector only for a zero-probability outcome (guard.zero-probability).",
    "C09": "Also: the random search hands the in-place solver a vector created in the same trial (trial.fresh); block determinants are reduced mod 2 "
           "before their truth is tested (gf2.truth). Round 2-3: lc_check inversion derived structurally (mapping x direction); GL(2,2) table entries built from generators are folded; argument order of is_lc_equivalent / lc_graph_operations; label vs position in local_comp_graph. Generic rules as listed under C01. Round 4: converter_gate_list applies _phase_correction on every path and appends its result (lc.sign-repair); Graph.local_complementation returns early only below two neighbours. Round 6: lc.rank-shortcut; node.common-order (fix c4e4540); sibling.xz-rowops. Round 8: arg.names-swapped single-argument clause. Round 10: the common node order is given up only when the node sets differ (not in an exception handler).",
    "C10": "Also: conversion gates may be omitted only under an adjacency-equality (or empty lc_check result) guard (conv.guard); the duplicate filter "
           "sees every result entry (dedup.covers-all). Round 2-3: relabel map shortcut pairs by position; matcher argument order. Generic rules as listed under C01. Round 4: duplicate filter followed into a helper, no read of the unfiltered list afterwards; str_to_op packs per-qubit gates into a wrapper in product order (order.wrapper). Round 5 / blind-spot pass: duplicate filter interpreted over all partitions of up to five entries (dedup.model, gqsa/minterp.py); str_to_op constructor shape; order.topological on _slim_seq. Round 6: index.space; enumerate loops read through; every binding of the relabel map inside the loop is the matcher call. Round 7: own.frontinsert. Round 8: relabel.target-labels. Round 10: SolverResult.sort_by interpreted on a 3 x 3 table (rows stay rows: result.sort-rows); dedup.model entries carry circuit, score and map, for every partition and every strict score order of up to four entries (each survivor is an untouched original entry).",
    "C11": "Also: consumed-tableau discipline, Z-only pivot choice (pivot.choice), direct sign-update gate forms. Round 2-3: elimination passes in order; result caches keyed by table only. Bit formulas: hadamard_gate / phase_gate / cnot_gate interpreted over GF(2) polynomials of a generic row and compared with the conjugation tables of H, P, CNOT (prim.formula); g_function's 16-entry table (prim.g-table); row_sum's accumulation, linear phase form, mod 4, hi/lo split and add_rows direction (prim.row-sum); linalg column/row helper shapes (prim.helper). Round 3: row operations through local holders of the tableau's matrices; the replayed identity tableau is untouched before the replay. Generic rules as listed under C01. Round 4: run_circuit dictionary dispatch; get_clifford_tableau_from_graph builds from the whole graph's stabilizer tableau (graph.whole). Round 5: block tests unfolded after inlining single-return helpers. Round 6: inverse.canonical-first; sibling.xz-rowops; rref.inline-step. Round 8: inverse.zpivot-h. Round 10: CliffordTableau(<StabilizerTableau>) takes its signs from the converted tableau (ctor.phase-source); no return before the sign pass of inverse_circuit.",
    "C12": "Also: node-label index maintenance on add/remove/replace (sibling.nodekeys) and re-joined edge attributes. Round 2-3: reachability on the whole DAG; exports walk sequence(); merged wrapper chunk direction. Round 3: register lists and depth counters grow together (own.registers paired). Generic rules as listed under C01. Round 4: sibling.nodekeys as index events with helpers inlined; reg.ensure; validate.shape; custom reachability traversals inspected. Round 5 / blind-spot pass: _add_reg_if_absent decision and wire shape (reg.create); index update under exactly the conditions of the graph mutation (own.dag); node_dict keys are never deleted while unguarded subscript readers exist (index.key-stays); grouping loop flushes the run before every continue (group.run-closed); literal table loops are unrolled before the index-event analysis. Round 7: zip.pairing (generic); unwrap.order own-register clause; every wrapper expanded. Round 9: wire labels use register numbers, never positions in an operation's register list (wire.label-values); _remove_edge names the keyed edge; unwrap.order on the wrapper model. Round 11: identity removal visits every identity node (no break / return in the walk).",
    "C13": "Also: a .copy() of a container of tableaux is shallow and still aliases (effect.alias-into-state). Round 2-3: in-place element stores into an operation's field; exports / copies walk sequence(). Round 3: remove_identity removes exactly Identity operations (identity.scope). Generic rules as listed under C01. Round 4: sibling.nodekeys (armed here), unwrap.source, effect.noise-preserved (fixes 33bd08e, 0258182, 9f7bf9b), noise.placement. Round 5: group.run-closed. Round 7: grouping wrapper names the walked register and type; unwrap_nodes expands every wrapper. Round 9: copy() returns the deep copy without storing into its operations (copy.faithful); identity.scope also reads inline predicates on parameterised rotations (every angle tested); every class labelled 'one-qubit' is accepted by the grouping wrapper (group.label-classes; one known finding: MeasurementZ). Round 11: assign_noise gives the noisy copy all three register counts of the original (noisy-copy.registers); identity removal visits every identity node.",
    "C14": "Also: importer regexes are inspected as syntax trees (regex.repeated-group), header/register coverage (header.cover). Round 2-3: exports walk sequence(); composite body per operation (not per distinct gate); measurement written to the classical register (qasm.creg); every written JSON key read back for every class that has it (json.fields); reader classes default-constructible (json.ctor). Generic rules as listed under C01. Round 4: json.wrapper-complete; qasm.per-operation. Round 6: constructor calls and key spellings in arg.names-swapped; qasm.declares-used; info functions built by a helper are specialised per call. Round 8: state.class-store; defined-gate return guarded by membership. Round 10: every operation's statement is exported whatever was written before (export.every-statement); the importer's look-ahead guards admit exactly the offsets read under them (parse.lookahead-guard).",
    "C15": "Also: multi-edge matching and both-end roles (cmp.multiedge), node-label index (sibling.nodekeys). Round 2-3: comparison helpers followed (exact vs approximate); ged result compared with 0 (ged.zero). Generic rules as listed under C01. Round 4: cmp.every-step; role pairs compared as units; cmp.decision (truth tables of direct()'s step, its precheck, node_match, edge_match); cmp.walk-edge. Round 5 / blind-spot pass: full-isomorphism verdict; zip.truncation; redundancy filters interpreted over every list of up to four circuits and every reported-equal relation (dedup.model). Round 7: comparisons followed into helpers / named intermediates; unordered register comparison only for symmetric gates; unwrap_nodes expands every wrapper. Round 9: identity.scope armed here (comparisons work on identity-free copies: only identities may be removed). Round 11: cmp.normalise follows a copying helper and requires the wrappers to be expanded before the identities are dropped.",
    "C16": "Also: iso_finder's result is one whole de-duplicated batch, a slice or a re-ordering of one, and explorers test candidates against the "
           "whole list they append to (distinct.source). Round 2-3: relabel map shortcut / direction; local_comp_graph label vs position incl. result relabelling. Generic rules as listed under C01. Round 4: cmp.labelled-graphs (structure only, one common node order; fix 4d87d10). Left undecided on purpose: distinctness of scripted walks (integer-sequence values). Round 6: no untested append in a de-duplicating explorer; iso.bounded; iso.input-first (known finding: sort_emit re-orders the result). Round 8: distinct.prefix-set. Round 10: check_isomorphism is an existential search over the whole list (distinct.member-search).",
    "C17": "Also: eigh/sqrtm_psd/hermitianize receive matrices that are Hermitian by construction (num.hermitian-arg); the partial-trace subscript is "
           "checked per axis position (row letter / column letter of kept and dropped axis i). Round 2-3: einsum subscript as abstract letter sequences incl. output order; trace-distance closed form only for two pure states; weighted branch fidelities. Round 3: eigenvalues clipped at exactly 0 before the square root (num.spectral-sqrt); representation dispatch of the metric (rep.dispatch). Generic rules as listed under C01. Round 4: per-branch overlap squared; dist.whole-state; chain.subject-drift (fix 3b18837); known finding sign.used shared with C08. Round 5 / blind-spot pass: metric.value; weight.fidelity branch-contribution clause; the stabilizer side of the cross-representation clause (fid.shape, counter condition) armed here too. Round 7: num.spectra-paired; conv.pauli-from-bits. Round 11: a reshape-and-trace fast path of partial_trace is guarded by 'the kept indices start at 0' (trace.leading-block).",
    "C18": "Also: loops that remove the element they iterate over walk a snapshot (iter.snapshot); the three emitter-depth metrics read each "
           "emitter's own gate history on the unwrapped, identity-free copy (metric.source). Round 2-3: cache invalidation coverage (memo.sound); flattened copy is the only receiver (metric.receiver). Round 3: depth is the maximum of the per-register counts (depth.longest); emitter history cut exactly at Input / MeasurementCNOTandReset / Output with helpers followed (metric.reset-points); register/depth lists grow together. Generic rules as listed under C01. Round 4: label.all-of; wire.follow-edge; metric.arith (counts from 0 by addition, consecutive differences over all pairs, maximum). Round 5: metric.source follows a preparation helper and reports an early return; literal table loops unrolled in replace_op's index events. Round 7: depth.index-aligned; complement-query clause of table.labels; unwrap_nodes expands every wrapper. Round 9: the penalty function is applied once, to the aggregated depth (metric.source); edge.keys armed here. Round 11: CircuitMaxEmitResetDepth's per-emitter loop interpreted on every emitter history of up to four operations (metric.reset-model).",
    "C19": "Also: hall-of-fame / population members are fresh objects per iteration. Round 2-3: who may write the hall of fame (own.hof). Round 3: result refreshed unconditionally after the last update_hof; keyed min/max/sorted, iter() and pop() over sets are order-sensitive (order.sethash). Generic rules as listed under C01. Round 4: score.fresh (every transformed member re-scored on every path); keys.cover. The _identify_noise map-key defect (#52) is printed as ADVISORY here as well. Round 6: per-member copies in tournament selection (structural, no name anchor); effect.shared-default. Round 10: hof.order reads unpacked entry names; a tie-break stores the new entry's own score.",
    "C20": "Also: the global-phase pivot of check_equivalent_unitaries is a provably non-zero entry (phase.pivot). Round 2-3: per-rule guard lets reject.fallthrough report behind an unparseable sibling. Round 3: simplification results stay inside the 24-element table (simplify.member); derived tableau gates compose to what they name (effect.derived-gate). Generic rules as listed under C01. Round 4: qasm.per-operation; group.order. Blind-spot pass: check_equivalent_unitaries decision table (equiv.decision). Round 6: sibling.qindex incl. the raw-register clause armed here (same qubit in both backends). Round 8: Stabilizer / MixedStabilizer gate table armed here (helper forwarding read). Round 9-10: unwrap.order / order.wrapper decided on the wrapper model; setter.derived-fields armed here.",
}
