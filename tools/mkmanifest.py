#!/usr/bin/env python3
"""Regenerate /verif/MANIFEST.json from tools/claims.py (single source for claims and not_applicable)."""
import json, os, sys
HERE = os.path.dirname(os.path.dirname(os.path.abspath(__file__)))
sys.path.insert(0, os.path.join(HERE, "tools"))
import claims

BASE_CMD = ("cd /repo && /venv/bin/python -m pytest -ra -q -p no:cacheprovider --timeout=900 "
            "--continue-on-collection-errors")
m = {
    "version": 1,
    "setup_cmd": "true",
    "hooks": {
        "guard": "GRAPHIQ_VERIF",
        "enable": "none needed: the checks are static (they parse /repo/graphiq/**/*.py on every run); no hook commits exist",
        "baseline_off_cmd": BASE_CMD,
        "source_commits": [],
        "add_only": True,
    },
    "engines": [{
        "name": "gqsa",
        "path": "gqsa/",
        "serves_properties": sorted(claims.CLAIMS),
        "kind_free_text": "repository-specific static analyser (pure-stdlib ast): class hierarchy + dispatch chains, "
                          "per-function flow summaries, alias/effect rules, table agreement, finite Clifford model; "
                          "graphiq is never imported or executed",
    }],
    "checks": [],
    "notes": claims.NOTES,
    "not_applicable": [],
}
for pid in [f"C{i:02d}" for i in range(1, 21)]:
    if pid in claims.CLAIMS:
        c = claims.CLAIMS[pid]
        m["checks"].append({
            "property_id": pid,
            "quick_cmd": f"./check {pid} --tier quick",
            "thorough_cmd": f"./check {pid} --tier thorough",
            "evidence_file": f"evidence/{pid}.json",
            "replay_cmd_template": f"./check {pid} --replay {{path}}",
            "engine": "gqsa",
            "level_claimed": {"category": "other", "text": c["text"] + (" " + claims.EXTRA[pid] if pid in getattr(claims, "EXTRA", {}) else ""), "design_ref": c["ref"]},
            "level_note": c["note"],
            "technique": c["technique"],
        })
    else:
        m["not_applicable"].append({"property_id": pid, "reason": claims.NA[pid]})
json.dump(m, open(os.path.join(HERE, "MANIFEST.json"), "w"), indent=1)
open(os.path.join(HERE, "MANIFEST.json"), "a").write("\n")
print("claimed:", sorted(claims.CLAIMS), "n/a:", len(m["not_applicable"]))
