#!/bin/sh
# tools/trypatch.sh <patch.diff> [PROP ...]  — apply a patch to a scratch worktree of /repo HEAD and run the given checks (default: all)
P=$(readlink -f "$1"); shift
WT=$(mktemp -d /tmp/gqsa_try_XXXX)
git -C /repo worktree add -f --detach "$WT" HEAD -q || exit 2
git -C "$WT" apply "$P" || { echo "PATCH DOES NOT APPLY"; git -C /repo worktree remove --force "$WT"; exit 2; }
cd "$(dirname "$0")/.."
PROPS="$@"; [ -z "$PROPS" ] && PROPS="C01 C02 C03 C04 C05 C06 C07 C08 C09 C10 C11 C12 C13 C14 C15 C16 C17 C18 C19 C20"
for p in $PROPS; do
  out=$(./check $p --repo "$WT" --no-evidence 2>&1); c=$?
  [ $c -ne 0 ] && { echo "$p exit=$c"; echo "$out" | grep -E "^graphiq|ANALYSIS-ERROR" | cut -c1-240 | head -4; }
done
echo "done"
git -C /repo worktree remove --force "$WT"; rm -rf "$WT"
