#!/bin/sh
# run every check (tier $1, default quick) against /repo (or $2) and summarise
TIER=${1:-quick}; REPO=${2:-/repo}
cd "$(dirname "$0")/.."
rc=0
for i in 01 02 03 04 05 06 07 08 09 10 11 12 13 14 15 16 17 18 19 20; do
  out=$(./check C$i --tier $TIER --repo $REPO 2>&1); c=$?
  echo "C$i exit=$c $(echo "$out" | grep SUMMARY | sed 's/SUMMARY property=C.. //')"
  [ $c -ne 0 ] && { rc=1; echo "$out" | grep -E "VIOLATION|ANALYSIS-ERROR|missed" | head -5; }
done
exit $rc
