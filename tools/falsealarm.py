#!/usr/bin/env python3
"""Behaviour-preserving rewrites of /repo/graphiq in a scratch dir; every check must stay silent (exit 0) on them.
  reformat : every module re-emitted by ast.unparse (all formatting / comments / docstring layout changed)
  shift    : 7 blank lines + a comment block inserted at the top of every module and before every def (line numbers move)
usage: tools/falsealarm.py [reformat|shift]"""
import ast, os, shutil, subprocess, sys, tempfile
mode = sys.argv[1] if len(sys.argv) > 1 else "reformat"
tmp = tempfile.mkdtemp(prefix="gqsa_fa_")
try:
    shutil.copytree("/repo/graphiq", os.path.join(tmp, "graphiq"), ignore=shutil.ignore_patterns("__pycache__"))
    for dp, dn, fn in os.walk(os.path.join(tmp, "graphiq")):
        for f in fn:
            if not f.endswith(".py"):
                continue
            p = os.path.join(dp, f)
            src = open(p, encoding="utf-8").read()
            if mode == "reformat":
                new = ast.unparse(ast.parse(src)) + "\n"
            else:
                out = ["# moved\n"] * 3 + ["\n"] * 7
                for line in src.splitlines(keepends=True):
                    if line.lstrip().startswith(("def ", "class ")) and not line.lstrip().startswith("def _anchor"):
                        ind = line[: len(line) - len(line.lstrip())]
                        out += [ind + "# inserted comment\n"]
                    out.append(line)
                new = "".join(out)
            ast.parse(new)
            open(p, "w", encoding="utf-8").write(new)
    here = os.path.dirname(os.path.dirname(os.path.abspath(__file__)))
    bad = 0
    for i in range(1, 21):
        pid = f"C{i:02d}"
        r = subprocess.run([os.path.join(here, "check"), pid, "--repo", tmp, "--no-evidence", "--tier", "thorough" if mode == "reformat" else "quick"],
                           capture_output=True, text=True)
        tail = [l for l in r.stdout.splitlines() if l.startswith(("VIOLATION", "ANALYSIS-ERROR", "SELFTEST C")) and ("VIOL" in l or "ERROR" in l or "variants=" in l)]
        print(pid, "exit", r.returncode, " | ".join(tail)[:200])
        bad += r.returncode != 0
    print("FALSE-ALARM TEST", mode, "failures:", bad)
    sys.exit(1 if bad else 0)
finally:
    shutil.rmtree(tmp, ignore_errors=True)
