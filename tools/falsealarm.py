#!/usr/bin/env python3
"""Behaviour-preserving rewrites of /repo/graphiq in a scratch dir; every check must stay silent (exit 0) on them.
  reformat : every module re-emitted by ast.unparse (all formatting / comments / docstring layout changed)
  shift    : 7 blank lines + a comment block inserted at the top of every module and before every def (line numbers move)
  rename   : every local variable of every function alpha-renamed (x -> x_v); a check may answer exit 2 (a local name it anchors on
             vanished) but never exit 1
  swapif   : every two-armed `if c: A else: B` (not an elif chain) rewritten as `if not c: B else: A`; same expectation
  commute  : operands of `==`, `!=`, `<`/`>` (mirrored), `*`, `^`, `&`, `|` swapped everywhere (behaviour-preserving for numbers, arrays,
             sets and list repetition); a check may answer exit 2 but never exit 1
  enumerate: every `for x in S:` with a plain name target rewritten as `for _k7, x in enumerate(S):`; a check may answer exit 2 but never exit 1
  temp     : in every simple statement `X = f(g(...), ...)` / `f(g(...), ...)` the nested call in first position is bound to a fresh local first
             (`_t9 = g(...)` then `f(_t9, ...)`); a check may answer exit 2 but never exit 1
usage: tools/falsealarm.py [reformat|shift|rename|swapif|commute|enumerate|temp]"""
import ast, os, shutil, subprocess, sys, tempfile
mode = sys.argv[1] if len(sys.argv) > 1 else "reformat"


def _own_nodes(fn):
    """nodes of fn's own scope (not inside nested def/lambda/class bodies)"""
    todo = list(fn.body)
    while todo:
        n = todo.pop()
        yield n
        for c in ast.iter_child_nodes(n):
            if isinstance(c, (ast.FunctionDef, ast.AsyncFunctionDef, ast.Lambda, ast.ClassDef)):
                continue
            todo.append(c)


def enumerate_loops(src):
    tree = ast.parse(src)

    class T(ast.NodeTransformer):
        def visit_For(self, node):
            self.generic_visit(node)
            if isinstance(node.target, ast.Name) and not (isinstance(node.iter, ast.Call) and isinstance(node.iter.func, ast.Name) and node.iter.func.id in ("enumerate", "zip")):
                node.target = ast.Tuple(elts=[ast.Name(id="_k7", ctx=ast.Store()), node.target], ctx=ast.Store())
                node.iter = ast.Call(func=ast.Name(id="enumerate", ctx=ast.Load()), args=[node.iter], keywords=[])
            return node
    return ast.unparse(ast.fix_missing_locations(T().visit(tree))) + "\n"


def introduce_temps(src):
    tree = ast.parse(src)
    counter = [0]

    def rewrite_block(body):
        out = []
        for st in body:
            for name in ("body", "orelse", "finalbody"):
                if isinstance(getattr(st, name, None), list) and not isinstance(st, (ast.ClassDef,)):
                    setattr(st, name, rewrite_block(getattr(st, name)))
            for h in getattr(st, "handlers", []) or []:
                h.body = rewrite_block(h.body)
            call = None
            if isinstance(st, ast.Assign) and isinstance(st.value, ast.Call):
                call = st.value
            elif isinstance(st, ast.Expr) and isinstance(st.value, ast.Call):
                call = st.value
            if call is not None and call.args and isinstance(call.args[0], ast.Call) and not any(isinstance(x, (ast.Lambda, ast.Yield, ast.Await, ast.NamedExpr)) for x in ast.walk(call.args[0])) \
                    and not isinstance(call.func, ast.Call) and not any(isinstance(a, ast.Starred) for a in call.args):
                counter[0] += 1
                nm = f"_t9_{counter[0]}"
                out.append(ast.copy_location(ast.Assign(targets=[ast.Name(id=nm, ctx=ast.Store())], value=call.args[0]), st))
                call.args[0] = ast.Name(id=nm, ctx=ast.Load())
            out.append(st)
        return out
    for fn in [f for f in ast.walk(tree) if isinstance(f, (ast.FunctionDef, ast.AsyncFunctionDef))]:
        fn.body = rewrite_block(fn.body)
    return ast.unparse(ast.fix_missing_locations(tree)) + "\n"


def rename_locals(src):
    tree = ast.parse(src)
    for fn in [n for n in ast.walk(tree) if isinstance(n, (ast.FunctionDef, ast.AsyncFunctionDef))]:
        if any(isinstance(n, ast.Name) and n.id in ("locals", "vars", "eval", "exec") for n in ast.walk(fn)):
            continue
        params = {a.arg for a in fn.args.posonlyargs + fn.args.args + fn.args.kwonlyargs}
        if fn.args.vararg: params.add(fn.args.vararg.arg)
        if fn.args.kwarg: params.add(fn.args.kwarg.arg)
        banned = set(params)
        for n in ast.walk(fn):
            if isinstance(n, (ast.Global, ast.Nonlocal)):
                banned |= set(n.names)
            if n is not fn and isinstance(n, (ast.FunctionDef, ast.AsyncFunctionDef, ast.Lambda)):
                a = n.args
                banned |= {x.arg for x in a.posonlyargs + a.args + a.kwonlyargs}
                if a.vararg: banned.add(a.vararg.arg)
                if a.kwarg: banned.add(a.kwarg.arg)
                if not isinstance(n, ast.Lambda):
                    banned.add(n.name)
                    # names assigned inside a nested def are that def's locals; renaming only the outer uses would be wrong
                    banned |= {x.id for x in ast.walk(n) if isinstance(x, ast.Name) and isinstance(x.ctx, ast.Store)}
            if isinstance(n, (ast.Import, ast.ImportFrom)):
                banned |= {(al.asname or al.name).split(".")[0] for al in n.names}
            if isinstance(n, ast.ExceptHandler) and n.name:
                banned.add(n.name)
            if isinstance(n, ast.ClassDef):
                banned.add(n.name)
        stores = {n.id for n in _own_nodes(fn) if isinstance(n, ast.Name) and isinstance(n.ctx, ast.Store)} - banned
        # do not rename a local of an enclosing function that this function only reads (closure): only names stored here
        for n in ast.walk(fn):
            if isinstance(n, ast.Name) and n.id in stores:
                n.id = n.id + "_v"
        # enclosing-scope safety: mark so that outer functions do not rename again
    # a name renamed in a nested function may also be a free variable of... (stored there => local there): fine
    return ast.unparse(tree) + "\n"


def swap_ifs(src):
    tree = ast.parse(src)
    for n in ast.walk(tree):
        if isinstance(n, ast.If) and n.orelse and not (len(n.orelse) == 1 and isinstance(n.orelse[0], ast.If)):
            # keep elif chains (the parent being an elif arm is fine: we only look at this node's own arms)
            n.test = n.test.operand if isinstance(n.test, ast.UnaryOp) and isinstance(n.test.op, ast.Not) else ast.UnaryOp(op=ast.Not(), operand=n.test)
            n.body, n.orelse = n.orelse, n.body
    ast.fix_missing_locations(tree)
    return ast.unparse(tree) + "\n"
def commute(src):
    tree = ast.parse(src)
    mirror = {ast.Lt: ast.Gt, ast.Gt: ast.Lt, ast.LtE: ast.GtE, ast.GtE: ast.LtE, ast.Eq: ast.Eq, ast.NotEq: ast.NotEq}
    for n in ast.walk(tree):
        if isinstance(n, ast.Compare) and len(n.ops) == 1 and type(n.ops[0]) in mirror:
            n.left, n.comparators[0] = n.comparators[0], n.left
            n.ops[0] = mirror[type(n.ops[0])]()
        elif isinstance(n, ast.BinOp) and isinstance(n.op, (ast.Mult, ast.BitXor, ast.BitAnd, ast.BitOr)):
            # string formatting / sequence repetition with a non-commutative meaning is left alone
            if isinstance(n.left, (ast.Constant, ast.JoinedStr)) and isinstance(getattr(n.left, "value", None), str):
                continue
            n.left, n.right = n.right, n.left
    ast.fix_missing_locations(tree)
    return ast.unparse(tree) + "\n"


tmp = tempfile.mkdtemp(prefix="gqsa_fa_")
try:
    shutil.copytree("/repo/graphiq", os.path.join(tmp, "graphiq"), ignore=shutil.ignore_patterns("__pycache__"))
    for dp, dn, fn in os.walk(os.path.join(tmp, "graphiq")):
        for f in fn:
            if not f.endswith(".py"):
                continue
            p = os.path.join(dp, f)
            src = open(p, encoding="utf-8").read()
            if mode == "reformat":
                new = ast.unparse(ast.parse(src)) + "\n"
            elif mode == "rename":
                new = rename_locals(src)
            elif mode == "swapif":
                new = swap_ifs(src)
            elif mode == "commute":
                new = commute(src)
            elif mode == "enumerate":
                new = enumerate_loops(src)
            elif mode == "temp":
                new = introduce_temps(src)
            else:
                out = ["# moved\n"] * 3 + ["\n"] * 7
                for line in src.splitlines(keepends=True):
                    if line.lstrip().startswith(("def ", "class ")) and not line.lstrip().startswith("def _anchor"):
                        ind = line[: len(line) - len(line.lstrip())]
                        out += [ind + "# inserted comment\n"]
                    out.append(line)
                new = "".join(out)
            ast.parse(new)
            open(p, "w", encoding="utf-8").write(new)
    here = os.path.dirname(os.path.dirname(os.path.abspath(__file__)))
    bad = 0
    for i in range(1, 21):
        pid = f"C{i:02d}"
        r = subprocess.run([os.path.join(here, "check"), pid, "--repo", tmp, "--no-evidence", "--tier", "thorough" if mode == "reformat" else "quick"] + (["--known", "/dev/null"] if False else []),
                           capture_output=True, text=True)
        tail = [l for l in r.stdout.splitlines() if l.startswith(("VIOLATION", "ANALYSIS-ERROR", "SELFTEST C")) and ("VIOL" in l or "ERROR" in l or "variants=" in l)]
        print(pid, "exit", r.returncode, " | ".join(tail)[:200])
        bad += (r.returncode != 0) if mode in ("reformat", "shift") else (r.returncode == 1)
    print("FALSE-ALARM TEST", mode, "failures:", bad)
    sys.exit(1 if bad else 0)
finally:
    shutil.rmtree(tmp, ignore_errors=True)
