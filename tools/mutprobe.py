#!/usr/bin/env python3
"""Probe the rule sets with an ad-hoc in-memory edit of one /repo file (nothing is written, graphiq is not run).

  /venv/bin/python -S tools/mutprobe.py <rel-file> <old-text> <new-text> [PROP ...]

Prints which properties' rule sets report a finding (and the first finding of each).  Used while hunting for blind spots."""
import os, sys
HERE = os.path.dirname(os.path.dirname(os.path.abspath(__file__)))
sys.path.insert(0, os.environ.get("GQSA_HOME", HERE))
from gqsa.core import Repo, AnalysisError
from gqsa.report import Ctx, load_known, match_known
from gqsa.driver import load_prop, PROPS

rel, old, new = sys.argv[1:4]
props = sys.argv[4:] or PROPS
src = open(os.path.join("/repo", rel), encoding="utf-8").read()
old = old.encode().decode("unicode_escape")
new = new.encode().decode("unicode_escape")
if src.count(old) < 1:
    print("old text not found"); sys.exit(2)
repo = Repo("/repo", overrides={rel: src.replace(old, new, 1)})
KNOWN = load_known()
hit = False
for q in props:
    ctx = Ctx(repo, q, "quick", 0)
    try:
        load_prop(q).run(ctx)
        if not ctx.findings:
            ctx.check_floors()
    except AnalysisError as e:
        print(q, "ANALYSIS-ERROR", str(e)[:160])
    fs = [f for f in ctx.findings if match_known(f, KNOWN) is None]
    errs = getattr(ctx, "analysis_errors", [])
    if fs:
        hit = True
        print(q, "FIRES", len(fs), "|", fs[0].rule, "|", fs[0].message[:200])
    elif errs:
        print(q, "analysis-error", str(errs[0])[:200])
print("caught" if hit else "MISSED")
