#!/usr/bin/env python3
"""Blind-spot scan: single-node syntactic mutants of the functions a property's anchors name, each applied in memory (nothing is
written, graphiq is not run) and judged by that property's rule set.  Not a check and not evidence of correctness: many mutants
are equivalent or harmless.  It answers one question — which anchored functions can be edited without any rule noticing — so that
rule-writing effort goes where the checker is blind.

  /venv/bin/python -S tools/mutscan.py PROP [-j N] [--list]"""
import ast, copy, json, os, sys
from concurrent.futures import ProcessPoolExecutor
HERE = os.path.dirname(os.path.dirname(os.path.abspath(__file__)))
sys.path.insert(0, HERE)
from gqsa.core import Repo, AnalysisError
from gqsa.report import Ctx, load_known, match_known
from gqsa.driver import load_prop, guard_rules

SWAP = {ast.Lt: ast.LtE, ast.LtE: ast.Lt, ast.Gt: ast.GtE, ast.GtE: ast.Gt, ast.Eq: ast.NotEq, ast.NotEq: ast.Eq,
        ast.Is: ast.IsNot, ast.IsNot: ast.Is, ast.In: ast.NotIn, ast.NotIn: ast.In}


def anchors(pid):
    for line in open(os.path.join(HERE, "properties.jsonl")):
        d = json.loads(line)
        if d["id"] == pid:
            out = {}
            for mm in d["anchors"]["mechanism"] + d["anchors"].get("state", []):
                for part in mm["where"].split(";"):
                    if ":" in part:
                        f, fs = part.split(":", 1)
                        for fn in fs.split(","):
                            fn = fn.strip().split(" ")[0]
                            if fn and "*" not in fn and "/" not in fn:
                                out.setdefault(f.strip(), set()).add(fn.split(".")[-1])
            return out
    raise SystemExit("unknown property")


def mutants(fn):
    """yield (description, mutator(node_copy_root) ) as index paths: we mutate a deep copy located by walk order"""
    nodes = list(ast.walk(fn))
    for i, n in enumerate(nodes):
        if isinstance(n, ast.Compare) and len(n.ops) == 1 and type(n.ops[0]) in SWAP:
            yield i, f"L{n.lineno} compare {type(n.ops[0]).__name__}->{SWAP[type(n.ops[0])].__name__}"
        elif isinstance(n, ast.BoolOp):
            yield i, f"L{n.lineno} boolop {type(n.op).__name__} flipped"
        elif isinstance(n, ast.BinOp) and isinstance(n.op, (ast.Add, ast.Sub)) and not any(isinstance(x, (ast.Constant,)) and isinstance(x.value, str) for x in (n.left, n.right)) \
                and not isinstance(n.left, (ast.List, ast.JoinedStr)) and not isinstance(n.right, (ast.List, ast.JoinedStr)):
            yield i, f"L{n.lineno} {type(n.op).__name__} flipped"
        elif isinstance(n, ast.Constant) and isinstance(n.value, int) and not isinstance(n.value, bool) and 0 <= n.value <= 2:
            yield i, f"L{n.lineno} const {n.value}->{n.value + 1}"
        elif isinstance(n, ast.UnaryOp) and isinstance(n.op, ast.Not):
            yield i, f"L{n.lineno} not dropped"
        elif isinstance(n, ast.Call) and len(n.args) >= 2 and all(isinstance(a, (ast.Name, ast.Attribute, ast.Subscript)) for a in n.args[:2]) \
                and ast.dump(n.args[0]) != ast.dump(n.args[1]):
            yield i, f"L{n.lineno} first two args of {ast.unparse(n.func)[:30]} swapped"


def apply(tree, fname, cls_line, idx):
    t = copy.deepcopy(tree)
    fn = next(f for f in ast.walk(t) if isinstance(f, ast.FunctionDef) and f.name == fname and f.lineno == cls_line)
    n = list(ast.walk(fn))[idx]
    if isinstance(n, ast.Compare):
        n.ops[0] = SWAP[type(n.ops[0])]()
    elif isinstance(n, ast.BoolOp):
        n.op = ast.Or() if isinstance(n.op, ast.And) else ast.And()
    elif isinstance(n, ast.BinOp):
        n.op = ast.Sub() if isinstance(n.op, ast.Add) else ast.Add()
    elif isinstance(n, ast.Constant):
        n.value = n.value + 1
    elif isinstance(n, ast.UnaryOp):
        # replace `not x` by x in its parent
        for p in ast.walk(fn):
            for field, val in ast.iter_fields(p):
                if val is n:
                    setattr(p, field, n.operand)
                elif isinstance(val, list) and any(v is n for v in val):
                    val[[k for k, v in enumerate(val) if v is n][0]] = n.operand
    elif isinstance(n, ast.Call):
        n.args[0], n.args[1] = n.args[1], n.args[0]
    ast.fix_missing_locations(t)
    return ast.unparse(t) + "\n"


def job(a):
    pid, rel, fname, line, idx, desc = a
    try:
        src = open(os.path.join("/repo", rel), encoding="utf-8").read()
        new = apply(ast.parse(src), fname, line, idx)
        guard_rules()
        repo = Repo("/repo", overrides={rel: new})
        ctx = Ctx(repo, pid, "quick", 0)
        try:
            load_prop(pid).run(ctx)
        except AnalysisError as e:
            return (rel, fname, desc, "exit2")
        known = load_known()
        fs = [f for f in ctx.findings if match_known(f, known) is None]
        if fs:
            return (rel, fname, desc, "killed:" + fs[0].rule)
        if getattr(ctx, "analysis_errors", []):
            return (rel, fname, desc, "exit2")
        return (rel, fname, desc, "survived")
    except Exception as e:
        return (rel, fname, desc, "error:" + type(e).__name__)


if __name__ == "__main__":
    pid = sys.argv[1]
    jobs = int(sys.argv[sys.argv.index("-j") + 1]) if "-j" in sys.argv else 12
    work = []
    for rel, fns in anchors(pid).items():
        p = os.path.join("/repo", rel)
        if not os.path.isfile(p):
            continue
        tree = ast.parse(open(p, encoding="utf-8").read())
        targets = []
        for f in ast.walk(tree):
            if isinstance(f, ast.FunctionDef) and f.name in fns:
                targets.append(f)
            elif isinstance(f, ast.ClassDef) and f.name in fns:
                targets += [g for g in f.body if isinstance(g, ast.FunctionDef)]
        seen = set()
        for f in targets:
            if (f.name, f.lineno) in seen:
                continue
            seen.add((f.name, f.lineno))
            for idx, desc in mutants(f):
                work.append((pid, rel, f.name, f.lineno, idx, desc))
    print(f"{pid}: {len(work)} mutants over {len({(w[1], w[2]) for w in work})} anchored functions")
    if "--list" in sys.argv:
        sys.exit(0)
    with ProcessPoolExecutor(max_workers=jobs) as ex:
        res = list(ex.map(job, work, chunksize=4))
    by = {}
    for rel, fname, desc, st in res:
        by.setdefault((rel, fname), []).append((desc, st))
    for (rel, fname), lst in sorted(by.items()):
        k = sum(1 for _, s in lst if s.startswith("killed"))
        e = sum(1 for _, s in lst if s == "exit2")
        print(f"  {rel.split('/')[-1]}::{fname}: {len(lst)} mutants, {k} reported, {e} undecided (exit 2), {len(lst) - k - e} silent")
        if "-v" in sys.argv:
            for d, s in lst:
                if s == "survived":
                    print("      silent:", d)
    tot = len(res)
    k = sum(1 for r in res if r[3].startswith("killed"))
    e = sum(1 for r in res if r[3] == "exit2")
    print(f"{pid}: {k}/{tot} reported, {e} undecided, {tot - k - e} silent")
