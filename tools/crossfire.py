#!/usr/bin/env python3
"""Apply every knock-out variant of every property (in memory) and run ALL twenty rule sets on it.
Reports internal errors (tracebacks) and analysis errors — a mutated tree must yield a verdict, not a crash."""
import os, sys, traceback
from concurrent.futures import ProcessPoolExecutor
HERE = os.path.dirname(os.path.dirname(os.path.abspath(__file__)))
sys.path.insert(0, HERE)
from gqsa.core import Repo, AnalysisError
from gqsa.report import Ctx
from gqsa.driver import load_prop, PROPS
from gqsa.report import load_known, match_known
KNOWN = load_known()

def job(args):
    pid, i = args
    ko = load_prop(pid).KNOCKOUTS[i]
    try:
        src = open(os.path.join("/repo", ko.rel), encoding="utf-8").read()
        new = ko.edit(src)
    except LookupError:
        return (pid, ko.name, "n/a", [], [], [])
    repo = Repo("/repo", overrides={ko.rel: new})
    fired, aerr, crash = [], [], []
    for q in PROPS:
        try:
            ctx = Ctx(repo, q, "quick", 0)
            load_prop(q).run(ctx)
            if not ctx.findings:
                ctx.check_floors()
            if any(match_known(f, KNOWN) is None for f in ctx.findings):
                fired.append(q)
        except AnalysisError as e:
            aerr.append(f"{q}: {str(e)[:90]}")
        except Exception as e:
            crash.append(f"{q}: {type(e).__name__}: {e} @ {traceback.format_exc().splitlines()[-3].strip()[:120]}")
    return (pid, ko.name, "ok", fired, aerr, crash)

if __name__ == "__main__":
    jobs = [(p, i) for p in PROPS for i in range(len(getattr(load_prop(p), "KNOCKOUTS", [])))]
    with ProcessPoolExecutor(16) as ex:
        res = list(ex.map(job, jobs))
    ncr = 0
    for pid, name, st, fired, aerr, crash in res:
        if crash or aerr or (st == "ok" and pid not in fired):
            print(pid, name, "fired:", fired, "| analysis-errors:", aerr, "| CRASH:", crash)
        ncr += len(crash)
    print("variants", len(res), "crashes", ncr, "with-analysis-error", sum(1 for r in res if r[4]))
