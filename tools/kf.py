#!/usr/bin/env python3
"""Maintain /verif/known_findings.json (never called by a check; checks only read the file).

  tools/kf.py add <fixed|known> <replay.json> <commit-or-'-'> <what failed ...>
  tools/kf.py list
"""
import json, os, sys
HERE = os.path.dirname(os.path.dirname(os.path.abspath(__file__)))
P = os.path.join(HERE, "known_findings.json")

def load():
    if os.path.exists(P):
        return json.load(open(P))
    return {"_doc": "status 'known' entries are printed as KNOWN-FINDING and do not fail a check; 'fixed' entries "
                    "suppress nothing (the check reports the violation again if it returns). key = rule|file|function|"
                    "normalised construct (never a line number).", "findings": []}

def save(d):
    json.dump(d, open(P, "w"), indent=1)
    open(P, "a").write("\n")
    with open(os.path.join(HERE, "known_findings.txt"), "w") as fh:
        for f in d["findings"]:
            fh.write(f["record"] + "\n")

if __name__ == "__main__":
    cmd = sys.argv[1]
    d = load()
    if cmd == "add":
        status, rp, commit = sys.argv[2:5]
        what = " ".join(sys.argv[5:])
        r = json.load(open(rp))
        ent = {"property": r["property"], "rule": r["rule"], "key": r["key"], "status": status, "what": what}
        if status == "fixed":
            ent["commit"] = commit
            ent["record"] = f"fixed: property={r['property']} {commit} {what}"
        else:
            ent["record"] = f"known: property={r['property']} {what}"
        d["findings"] = [f for f in d["findings"] if not (f["key"] == ent["key"] and f["property"] == ent["property"])]
        d["findings"].append(ent)
        save(d)
        print(ent["record"])
    elif cmd == "addall":
        # addall <fixed|known> <PROP> <rule> <key-substring or '-'> <commit or '-'> <what...>; findings come from a run on --repo $KF_REPO
        import subprocess
        status, prop, rule, sub, commit = sys.argv[2:7]
        what = " ".join(sys.argv[7:])
        repo = os.environ.get("KF_REPO", "/tmp/wt_orig")
        out = subprocess.run([os.path.join(HERE, "check"), prop, "--repo", repo, "--json", "--no-evidence", "--known", "/dev/null"],
                             capture_output=True, text=True).stdout
        js = json.loads([l for l in out.splitlines() if l.startswith("JSON ")][0][5:])
        n = 0
        for r in js:
            if r["rule"] == rule and (sub == "-" or sub in r["key"]):
                ent = {"property": prop, "rule": rule, "key": r["key"], "status": status, "what": what}
                if status == "fixed":
                    ent["commit"] = commit
                    ent["record"] = f"fixed: property={prop} {commit} {what}"
                else:
                    ent["record"] = f"known: property={prop} {what}"
                d["findings"] = [f for f in d["findings"] if not (f["key"] == ent["key"] and f["property"] == prop)]
                d["findings"].append(ent)
                n += 1
                print(ent["record"], "::", r["key"][:100])
        save(d)
        print(n, "entries")
    elif cmd == "list":
        for f in d["findings"]:
            print(f["record"], "::", f["key"])
