# known finding (C02): a target graph with an isolated vertex makes the deterministic solver raise IndexError
import networkx as nx
from graphiq.solvers.time_reversed_solver import TimeReversedSolver
from graphiq.backends.stabilizer.compiler import StabilizerCompiler
from graphiq.metrics import Infidelity
from graphiq.state import QuantumState
g = nx.Graph(); g.add_nodes_from([0, 1, 2]); g.add_edge(0, 1)     # vertex 2 is isolated
target = QuantumState(g, rep_type="g"); target.convert_representation("s")
s = TimeReversedSolver(target=target, metric=Infidelity(target), compiler=StabilizerCompiler())
try:
    s.solve(); print("solved, score", s.result[0])
except Exception as e:
    print("ERR", type(e).__name__, e)
