import numpy as np, networkx as nx, sys
from graphiq.backends.lc_equivalence_check import find_lc_operations, is_lc_equivalent, lc_graph_operations, local_comp_graph
A=np.array([[0,0,1,1],[0,0,1,0],[1,1,0,0],[1,0,0,0]]); B=np.array([[0,1,0,1],[1,0,1,1],[0,1,0,0],[1,1,0,0]])
def lc(adj, v):
    adj=adj.copy(); nb=[i for i in range(len(adj)) if adj[v,i]]
    for i in nb:
        for j in nb:
            if i<j: adj[i,j]^=1; adj[j,i]^=1
    return adj
def apply(adj, seq):
    for v in seq: adj=lc(adj,v)
    return adj
ok,sol=is_lc_equivalent(A,B)
print("equiv",ok)
seq_direct=lc_graph_operations(A,sol); print("direct",seq_direct, np.array_equal(apply(A,seq_direct),B))
try:
    seq=find_lc_operations(A,B); print("find",seq, np.array_equal(apply(A,seq),B))
    sys.exit(0 if np.array_equal(apply(A,seq),B) else 1)
except Exception as e:
    print("find raised",repr(e)); sys.exit(1)
