"""Witness (run by hand): iso_finder(..., sort_emit=True) does not keep the input graph first.

On its slow path the result is re-ordered by emitter_sorted (number of emitters needed); whenever a relabelling needs fewer emitters
than the input's own labelling, that relabelling comes first, although the docstring and property C16 say the input is the first
element.  Exit 1 while the behaviour is present."""
import sys
import warnings
import networkx as nx
import numpy as np
from graphiq.utils.relabel_module import iso_finder

warnings.simplefilter("ignore")
g = nx.Graph()
g.add_nodes_from(range(6))
g.add_edges_from([(3, 0), (0, 5), (5, 1), (1, 4), (4, 2)])          # a path labelled 3-0-5-1-4-2
adj = nx.to_numpy_array(g, nodelist=range(6))
bad = 0
for seed in range(10):
    out = iso_finder(adj, 30, sort_emit=True, seed=seed)
    first = out[0]
    if not np.array_equal(np.asarray(first).reshape(6, 6), adj):
        bad += 1
print("seeds for which the input is not the first matrix returned:", bad, "of 10")
if bad:
    print("DEFECT: 'the input first' does not hold with sort_emit=True")
    sys.exit(1)
print("ok")
