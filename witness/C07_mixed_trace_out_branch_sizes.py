"""Witness (run by hand): MixedStabilizer.trace_out_qubits removes too many qubits from every branch after the first.

The list of qubits to keep is computed inside the comprehension over the branches from `self.n_qubits`, which reads the size of
the first branch's tableau — and sfc.partial_trace shrinks that tableau in place.  From the second branch on, `keep` is computed
from the already reduced size, so one more qubit is dropped per branch.  Exit 1 while the defect is present."""
import sys
from graphiq.backends.stabilizer.state import MixedStabilizer
from graphiq.backends.stabilizer.functions.clifford import create_n_ket0_state, create_n_ket1_state

m = MixedStabilizer([(0.5, create_n_ket0_state(4)), (0.5, create_n_ket1_state(4))])
m.trace_out_qubits([0])
sizes = [t.n_qubits for _, t in m.mixture]
print("branch sizes after tracing out qubit 0 of 4:", sizes)
labels = [t.stabilizer_to_labels() if hasattr(t, "stabilizer_to_labels") else None for _, t in m.mixture]
if sizes != [3, 3]:
    print("DEFECT: the branches no longer have the same number of qubits")
    sys.exit(1)
print("ok")
