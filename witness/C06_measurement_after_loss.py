import numpy as np, sys
from graphiq.circuit.circuit_dag import CircuitDAG
import graphiq.circuit.ops as ops
import graphiq.noise.noise_models as nm
from graphiq.backends.density_matrix.compiler import DensityMatrixCompiler
from graphiq.backends.stabilizer.compiler import StabilizerCompiler
def circ():
    c=CircuitDAG(n_emitter=1,n_photon=1,n_classical=1)
    c.add(ops.Hadamard(register=0, reg_type="e"))
    c.add(ops.CNOT(control=0, control_type="e", target=0, target_type="p", noise=[nm.NoNoise(), nm.PhotonLoss(0.3)]))
    c.add(ops.MeasurementCNOTandReset(control=0, control_type="e", target=0, target_type="p", c_register=0))
    return c
d=DensityMatrixCompiler(); d.noise_simulation=True; d.measurement_determinism=1
s=StabilizerCompiler(); s.noise_simulation=True; s.measurement_determinism=1
rd=d.compile(circ()); rs=s.compile(circ())
tr=np.real(np.trace(rd.rep_data.data)); w=rs.rep_data.probability if hasattr(rs.rep_data,'probability') else None
print("dm trace", tr, "stabilizer weight", w)
sys.exit(0 if abs(tr-0.7)<1e-9 else 1)
