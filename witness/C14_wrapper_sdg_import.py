# known finding (C14): a wrapper containing PhaseDagger exports as gate "hsdg"; the importer splits the name letter by letter
from graphiq.circuit.circuit_dag import CircuitDAG
import graphiq.circuit.ops as ops
c = CircuitDAG(n_emitter=1, n_photon=0, n_classical=0)
c.add(ops.OneQubitGateWrapper([ops.Hadamard, ops.PhaseDagger], register=0, reg_type="e"))
try:
    CircuitDAG.from_openqasm(c.to_openqasm())
except Exception as e:
    print("from_openqasm:", type(e).__name__, str(e)[:100])   # AssertionError: Gate not recognized ... 'd', 'g' -> None
