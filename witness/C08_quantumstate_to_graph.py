import networkx as nx, numpy as np, sys, traceback
from graphiq.state import QuantumState
g=nx.path_graph(3)
bad=0
for a in ("g","s","dm"):
    for b in ("g","s","dm"):
        if a==b: continue
        try:
            st=QuantumState(g, rep_type="g"); 
            if a!="g": st.convert_representation(a)
            st.convert_representation(b)
            st.convert_representation("g")
            ok = set(map(lambda e: tuple(sorted(e)), st.rep_data.data.edges()))=={(0,1),(1,2)}
            print(a,"->",b,"-> g", "ok" if ok else "WRONG")
            bad += (not ok)
        except Exception as e:
            print(a,"->",b,"-> g RAISED", type(e).__name__, str(e)[:100]); bad+=1
sys.exit(1 if bad else 0)
