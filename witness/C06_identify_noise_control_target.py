"""Witness (run by hand): SolverBase._identify_noise never honours "<gate>_control" / "<gate>_target" entries of a noise map.

It turns an operation into its class and then asks isinstance(<class>, ControlledPairOperationBase), which is False for every class:
a map {"CNOT_control": DepolarizingNoise, "CNOT_target": PhotonLoss} yields NoNoise for a CNOT."""
import sys
import graphiq.circuit.ops as ops
import graphiq.noise.noise_models as nm
from graphiq.solvers.solver_base import SolverBase

mapping = {"CNOT_control": nm.DepolarizingNoise(0.1), "CNOT_target": nm.PhotonLoss(0.2)}
got = SolverBase._identify_noise(None, ops.CNOT, mapping)
print("noise identified for CNOT:", got)
ok = isinstance(got, list) and len(got) == 2 and isinstance(got[0], nm.DepolarizingNoise) and isinstance(got[1], nm.PhotonLoss)
if not ok:
    print("DEFECT: the per-qubit entries of the map are ignored")
    sys.exit(1)
print("ok")
