import networkx as nx, sys
from graphiq.backends.lc_equivalence_check import local_comp_graph
g=nx.Graph(); g.add_nodes_from([2,0,1,3]); g.add_edges_from([(0,1),(0,2),(0,3)])  # star centred at 0, node order [2,0,1,3]
h=local_comp_graph(g,0)
got=sorted(tuple(sorted(e)) for e in h.edges())
want=sorted([(0,1),(0,2),(0,3),(1,2),(1,3),(2,3)])  # LC at the centre of a star gives K4
print(got); sys.exit(0 if got==want else 1)
