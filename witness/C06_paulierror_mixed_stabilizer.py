# C06: PauliError on the stabilizer backend with noise simulation on (MixedStabilizer) raised TypeError (fixed)
from graphiq.circuit.circuit_dag import CircuitDAG
import graphiq.circuit.ops as ops
import graphiq.noise.noise_models as nm
from graphiq.backends.stabilizer.compiler import StabilizerCompiler
from graphiq.backends.density_matrix.compiler import DensityMatrixCompiler
c = CircuitDAG(n_emitter=1, n_photon=0, n_classical=0)
c.add(ops.Hadamard(register=0, reg_type="e", noise=nm.PauliError("Z")))
for comp in (DensityMatrixCompiler(), StabilizerCompiler()):
    comp.noise_simulation = True
    try:
        s = comp.compile(c)
        print(type(comp).__name__, "ok", type(s.rep_data).__name__)
    except Exception as e:
        print(type(comp).__name__, "ERR", type(e).__name__, e)
