"""Witness (run by hand): sfu.is_symplectic raises on the 2n x 2n table of a Clifford tableau (the form is sized by the row count)."""
import sys
from graphiq.backends.stabilizer.clifford_tableau import CliffordTableau
import graphiq.backends.stabilizer.functions.utils as sfu
import graphiq.backends.stabilizer.functions.transformation as tr

t = tr.cnot_gate(tr.hadamard_gate(CliffordTableau(2), 0), 0, 1)
try:
    ok = sfu.is_symplectic(t.table)
except ValueError as e:
    print("DEFECT: is_symplectic raised", type(e).__name__, str(e)[:80])
    sys.exit(1)
print("is_symplectic(Bell tableau) =", ok)
sys.exit(0 if ok else 1)
