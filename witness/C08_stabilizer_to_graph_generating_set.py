import numpy as np, networkx as nx, sys
import graphiq.backends.state_rep_conversion as rc
from graphiq.backends.stabilizer.tableau import StabilizerTableau
g=nx.path_graph(3)
t=rc.graph_to_stabilizer(g)[0][1]
M=np.array([[1,1,0],[0,1,0],[0,0,1]])
x=(M@t.x_matrix)%2; z=(M@t.z_matrix)%2
# sign of product row: g0*g1 for path: X Z I * Z X Z = (XZ)(ZX) Z -> compute sign via explicit check later; choose generators product sign +: use canonical helper
from graphiq.backends.stabilizer.functions.stabilizer import tab_row_sum
t2=t.copy(); t2=tab_row_sum(t2,1,0)   # row0 <- row0*row1 with sign tracking
print(t2.to_labels(), t2.phase)
try:
    out=rc.stabilizer_to_graph(t2)
    ok=set(map(lambda e: tuple(sorted(e)), out[0][1].edges()))=={(0,1),(1,2)}
    print("recovered", ok); sys.exit(0 if ok else 1)
except AssertionError as e:
    print("RAISED", e); sys.exit(1)
