"""Witness (run by hand): inverse_circuit does not reduce every stabilizer state to |0...0>.

Six-qubit state <-ZYYXXI, -XZXZIY, -YYZYZI, -YIYIYI, +YYZXXY, +XYZYYX> (reported independently by three sub-agents for 6-7 qubit
random Clifford states, about 1 % of them).  In the first Hadamard block the last column finds no generator at or below the pivot
row, the block does nothing for it and still advances; the returned tableau ends with rows IIIIZX, IIIIXZ instead of IIIIZI, IIIIIZ,
so the emitted circuit does not map the state to |0...0> and clifford_from_stabilizer replays it into a different state."""
import sys
import numpy as np
from graphiq.backends.stabilizer.tableau import StabilizerTableau
import graphiq.backends.stabilizer.functions.stabilizer as sfs
import graphiq.backends.stabilizer.functions.metric as sfm
from graphiq.backends.stabilizer.functions.rep_conversion import clifford_from_stabilizer


def tab(gens):
    n = len(gens[0]) - 1
    x = np.zeros((n, n), int); z = np.zeros((n, n), int); r = np.zeros(n, int)
    for i, g in enumerate(gens):
        r[i] = 1 if g[0] == "-" else 0
        for j, c in enumerate(g[1:]):
            x[i, j] = c in "XY"; z[i, j] = c in "ZY"
    return StabilizerTableau([x, z], r)


t = tab(["-ZYYXXI", "-XZXZIY", "-YYZYZI", "-YIYIYI", "+YYZXXY", "+XYZYYX"])
red, circ = sfs.inverse_circuit(t.copy())
ok = (not red.x_matrix.any()) and np.array_equal(red.z_matrix, np.eye(6, dtype=int)) and not red.phase.any()
print("reduced to +Z_i:", ok)
c = clifford_from_stabilizer(t.copy())
print("fidelity(a, a) =", sfm.fidelity(c, c))
sys.exit(0 if ok else 1)
