"""Witness (run by hand, never by a check): CircuitDAG.group_one_qubit_gates on a circuit that contains a MeasurementZ.

MeasurementZ gives itself the label "one-qubit" (ops.py, MeasurementZ.__init__) although it is not a OneQubitOperationBase.
group_one_qubit_gates walks each wire, removes every node indexed under "one-qubit" and appends its class to the gate list of a
OneQubitGateWrapper, whose constructor asserts issubclass(op_class, OneQubitOperationBase).  So H(e0); MeasurementZ(e0 -> c0);
group_one_qubit_gates() removes the measurement node, then raises AssertionError: the circuit handed in has lost its measurement
(C13: grouping does not change the state the circuit compiles to; C12: the circuit stays the edited circuit).

usage: PYTHONPATH=/repo /venv/bin/python witness/C13_group_one_qubit_gates_measurement.py   -> exit 1 while the defect is present"""
import sys
import graphiq.circuit.ops as ops
from graphiq.circuit.circuit_dag import CircuitDAG

c = CircuitDAG(n_emitter=1, n_photon=0, n_classical=1)
c.add(ops.Hadamard(register=0, reg_type="e"))
c.add(ops.MeasurementZ(register=0, reg_type="e", c_register=0))
before = [type(o).__name__ for o in c.sequence()]
try:
    c.group_one_qubit_gates()
    raised = None
except Exception as ex:  # noqa
    raised = type(ex).__name__
after = [type(o).__name__ for o in c.sequence()]
print("before:", before)
print("raised:", raised)
print("after: ", after)
bad = raised is not None or "MeasurementZ" not in after
print("DEFECT PRESENT" if bad else "ok")
sys.exit(1 if bad else 0)
