# C07: remove_qubit on an unentangled qubit in |1> flips the sign of a remaining generator that still has a Z on it
import numpy as np
from graphiq.backends.stabilizer.clifford_tableau import CliffordTableau
import graphiq.backends.stabilizer.functions.clifford as sfc
# state |1>|0> presented by the generators  -Z0 , -Z0Z1   (destabilizers X0X1 , X1)
table = np.array([[1, 1, 0, 0],
                  [0, 1, 0, 0],
                  [0, 0, 1, 0],
                  [0, 0, 1, 1]])
t = CliffordTableau(table, phase=np.array([0, 0, 1, 1]))
r = sfc.remove_qubit(t, 0)
print("remaining qubit:", r.stabilizer_to_labels(), "sign", int(r.phase[1]), "(expected ['Z'] with sign 0, i.e. |0>)")
