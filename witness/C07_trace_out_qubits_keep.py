"""Witness (run by hand): Stabilizer.trace_out_qubits / MixedStabilizer.trace_out_qubits keep the listed qubits instead of removing them.

|0>|0>|+> : tracing out qubit 2 must leave the two-qubit state |00> (2 qubits, stabilizers Z0, Z1)."""
import sys
import numpy as np
from graphiq.backends.stabilizer.state import Stabilizer, MixedStabilizer

bad = []
s = Stabilizer(3)
s.apply_hadamard(2)
s.trace_out_qubits([2])
print("Stabilizer: n_qubits after tracing out one of three:", s.n_qubits)
if s.n_qubits != 2:
    bad.append("Stabilizer")
ms = MixedStabilizer(3)
ms.apply_hadamard(2)
ms.trace_out_qubits([2])
print("MixedStabilizer: n_qubits after tracing out one of three:", ms.n_qubits)
if ms.n_qubits != 2:
    bad.append("MixedStabilizer")
if bad:
    print("DEFECT:", bad)
    sys.exit(1)
st = s.tableau.to_stabilizer()
print(st.x_matrix, st.z_matrix, st.phase)
assert not st.x_matrix.any() and (np.linalg.matrix_rank(st.z_matrix) == 2)
print("ok")
