# C06: controlled gate with control noise AFTER and target noise BEFORE the gate: the control's noise was never applied
import numpy as np
from graphiq.circuit.circuit_dag import CircuitDAG
import graphiq.circuit.ops as ops
import graphiq.noise.noise_models as nm
from graphiq.backends.density_matrix.compiler import DensityMatrixCompiler
def run(ctrl_noise, tgt_noise):
    c = CircuitDAG(n_emitter=2, n_photon=0, n_classical=0)
    c.add(ops.CNOT(control=0, control_type="e", target=1, target_type="e", noise=[ctrl_noise, tgt_noise]))
    comp = DensityMatrixCompiler(); comp.noise_simulation = True
    return comp.compile(c).rep_data.data
x_after = nm.PauliError("X"); x_after.noise_parameters["After gate"] = True
i_before = nm.PauliError("I"); i_before.noise_parameters["After gate"] = False
rho = run(x_after, i_before)
# CNOT|00> = |00>, then X on the control (after the gate) -> |10><10| (index 2)
print("population of |10>:", float(np.real(rho[2, 2])), "(expected 1.0)")
