import sys
from graphiq.circuit.circuit_dag import CircuitDAG
import graphiq.circuit.ops as ops
c=CircuitDAG(n_emitter=1,n_photon=1,n_classical=1)
c.add(ops.Hadamard(register=0,reg_type="e"))
c.add(ops.ClassicalCNOT(control=0,control_type="e",target=0,target_type="p",c_register=0))
try:
    d=CircuitDAG.from_json(c.to_json())
    names=[type(o).__name__ for o in d.sequence() if not isinstance(o,(ops.Input,ops.Output))]
    print(names); sys.exit(0 if names==["Hadamard","ClassicalCNOT"] else 1)
except Exception as e:
    print("RAISED", type(e).__name__, e); sys.exit(1)
