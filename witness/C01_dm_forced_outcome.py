import numpy as np, sys
from graphiq.circuit.circuit_dag import CircuitDAG
import graphiq.circuit.ops as ops
from graphiq.backends.density_matrix.compiler import DensityMatrixCompiler
def run(gates, det):
    c=CircuitDAG(n_emitter=1,n_photon=0,n_classical=1)
    for g in gates: c.add(g(register=0, reg_type="e"))
    c.add(ops.MeasurementZ(register=0, reg_type="e", c_register=0))
    comp=DensityMatrixCompiler(); comp.measurement_determinism=det
    st=comp.compile(c); return np.real(np.diag(st.rep_data.data))
bad=0
d=run([ops.SigmaX, ops.Hadamard, ops.Hadamard], 0)   # true state |1>: forcing 0 is impossible
print("X H H forced 0 ->", d); bad += not np.allclose(d,[0,1])
d=run([ops.Hadamard, ops.Hadamard], 1)               # true state |0>: forcing 1 is impossible
print("H H forced 1 ->", d); bad += not np.allclose(d,[1,0])
sys.exit(1 if bad else 0)
