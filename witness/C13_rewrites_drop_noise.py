"""Witness (run by hand): group_one_qubit_gates() and remove_identity() drop the noise attached to the operations they delete.

Circuit: H(e0, noise = Pauli-Z error) ; CNOT(e0 -> p0).  With noise simulated the state is (|00> - |11>)/sqrt2.
 * after group_one_qubit_gates() the Hadamard sits in a wrapper without noise -> (|00> + |11>)/sqrt2;
 * Identity(e0, noise = Pauli-X error) placed before the Hadamard is a bare bit-flip channel; remove_identity() deletes it."""
import sys
import numpy as np
import graphiq.circuit.ops as ops
import graphiq.noise.noise_models as nm
from graphiq.circuit.circuit_dag import CircuitDAG
from graphiq.backends.density_matrix.compiler import DensityMatrixCompiler


def compiled(circ):
    comp = DensityMatrixCompiler()
    comp.noise_simulation = True
    comp.measurement_determinism = 1
    return comp.compile(circ).rep_data.data


def same(a, b):
    return np.allclose(a, b, atol=1e-9)


bad = []
c = CircuitDAG(n_emitter=1, n_photon=1, n_classical=1)
c.add(ops.Hadamard(register=0, reg_type="e", noise=nm.PauliError("Z")))
c.add(ops.CNOT(control=0, control_type="e", target=0, target_type="p"))
ref = compiled(c)
g = c.copy()
g.group_one_qubit_gates()
if not same(ref, compiled(g)):
    bad.append("group_one_qubit_gates")
c2 = CircuitDAG(n_emitter=1, n_photon=1, n_classical=1)
c2.add(ops.Identity(register=0, reg_type="e", noise=nm.PauliError("X")))
c2.add(ops.Hadamard(register=0, reg_type="e"))
c2.add(ops.CNOT(control=0, control_type="e", target=0, target_type="p"))
ref2 = compiled(c2)
r = c2.copy()
r.remove_identity()
if not same(ref2, compiled(r)):
    bad.append("remove_identity")
if bad:
    print("DEFECT: noisy state changed by", bad)
    sys.exit(1)
print("ok")
