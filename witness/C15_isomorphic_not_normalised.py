# C15: CircuitDAG.compare(method="is_isomorphic") was sensitive to wrapping / identity gates and annotated its inputs (fixed)
from graphiq.circuit.circuit_dag import CircuitDAG
import graphiq.circuit.ops as ops
a = CircuitDAG(n_emitter=1, n_photon=0, n_classical=0)
a.add(ops.OneQubitGateWrapper([ops.Hadamard], register=0, reg_type="e"))
b = CircuitDAG(n_emitter=1, n_photon=0, n_classical=0)
b.add(ops.Hadamard(register=0, reg_type="e"))
b.add(ops.Identity(register=0, reg_type="e"))
print("direct:", a.compare(b, method="direct"), " is_isomorphic:", a.compare(b, method="is_isomorphic"))
print("input annotated:", any("control_target" in d for _, _, d in a.dag.edges(data=True)))
