# known finding (C14): parameterised gates cannot be exported to JSON, and their openQASM export cannot be imported back
from graphiq.circuit.circuit_dag import CircuitDAG
import graphiq.circuit.ops as ops
c = CircuitDAG(n_emitter=1, n_photon=0, n_classical=0)
c.add(ops.ParameterizedOneQubitRotation(register=0, reg_type="e", params=(0.1, 0.2, 0.3)))
d = c.to_json()
print("json type field:", d["ops"][0]["type"])            # None
try:
    CircuitDAG.from_json(d)
except Exception as e:
    print("from_json:", type(e).__name__, e)               # TypeError: 'NoneType' object is not callable
q = c.to_openqasm()
try:
    CircuitDAG.from_openqasm(q)
except Exception as e:
    print("from_openqasm:", type(e).__name__, str(e)[:80])  # AssertionError / ValueError: gate not recognised
