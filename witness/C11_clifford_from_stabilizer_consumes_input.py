# C11: CliffordTableau(stabilizer_tableau) / clifford_from_stabilizer reduced the caller's StabilizerTableau to |0..0> (fixed)
import networkx as nx
from graphiq.backends.stabilizer.functions.rep_conversion import get_stabilizer_tableau_from_graph
from graphiq.backends.stabilizer.clifford_tableau import CliffordTableau
s = get_stabilizer_tableau_from_graph(nx.path_graph(3))
before = s.to_labels()
c = CliffordTableau(s)
print("input before:", before, " input after:", s.to_labels(), " clifford:", c.stabilizer_to_labels())
