"""Witness (run by hand): lc_orbit_finder(with_iso=True) lists the input graph twice when its nodes were not added in sorted order.

_equal_graphs compared nx.to_numpy_array(g1) with nx.to_numpy_array(g2), each in its own insertion order; local_comp_graph returns
graphs in sorted node order, so the walk does not recognise the input when it comes back to it."""
import sys
import networkx as nx
from graphiq.utils.relabel_module import lc_orbit_finder

g = nx.Graph()
g.add_nodes_from([3, 0, 1, 2])
g.add_edges_from([(0, 1), (1, 2), (2, 3)])
orbit = lc_orbit_finder(g, with_iso=True)
keys = [frozenset(frozenset(e) for e in h.edges()) for h in orbit]
print(len(orbit), "graphs,", len(set(keys)), "distinct")
sys.exit(0 if len(set(keys)) == len(keys) else 1)
