"""Witness (run by hand): Graph.lc_equivalent answers "not equivalent" for two *equal* labelled graphs whose nodes were inserted in a
different order.  It converts each graph with nx.to_numpy_array in that graph's own insertion order, so the two matrices describe
differently labelled graphs, and LC equivalence is not invariant under relabelling one side.  Exit 1 while the defect is present."""
import sys
import networkx as nx
from graphiq.backends.graph.state import Graph

edges = [(0, 1), (1, 2), (2, 3), (3, 4), (4, 5), (1, 4)]
a = nx.Graph(); a.add_nodes_from(range(6)); a.add_edges_from(edges)
b = nx.Graph(); b.add_nodes_from([3, 1, 0, 2, 5, 4]); b.add_edges_from(edges)
assert nx.utils.graphs_equal(a, b)
same = Graph(a).lc_equivalent(Graph(a.copy()))[0]
other = Graph(a).lc_equivalent(Graph(b))[0]
print("same insertion order:", same, "| different insertion order:", other)
if not (same and other):
    print("DEFECT: a graph is reported not LC-equivalent to itself")
    sys.exit(1)
print("ok")
