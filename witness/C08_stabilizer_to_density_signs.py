import numpy as np, sys
from graphiq.backends.stabilizer.tableau import StabilizerTableau
import graphiq.backends.state_rep_conversion as rc
# |1> = stabilized by -Z
t=StabilizerTableau([np.array([[0]]), np.array([[1]])], np.array([1]))
rho=rc.stabilizer_to_density(t)
want=np.array([[0,0],[0,1]])
print(np.real(rho)); 
# two-qubit: -XX, +ZZ  -> (|00>-|11>)/sqrt2
t2=StabilizerTableau([np.array([[1,1],[0,0]]), np.array([[0,0],[1,1]])], np.array([1,0]))
rho2=rc.stabilizer_to_density(t2)
v=np.array([1,0,0,-1])/np.sqrt(2); want2=np.outer(v,v)
ok=np.allclose(rho,want) and np.allclose(rho2,want2)
print("ok" if ok else "WRONG"); sys.exit(0 if ok else 1)
