# C15: isomorphism method, two gates sharing two wires: edge_match looked at the first parallel edge only
from graphiq.circuit.circuit_dag import CircuitDAG
import graphiq.circuit.ops as ops
def circ(second):
    c = CircuitDAG(n_emitter=2, n_photon=0, n_classical=0)
    c.add(ops.Hadamard(register=0, reg_type="e"))
    c.add(ops.CNOT(control=0, control_type="e", target=1, target_type="e"))
    c.add(ops.CNOT(control=second[0], control_type="e", target=second[1], target_type="e"))
    return c
a, b = circ((0, 1)), circ((1, 0))
# H0; CNOT01; CNOT01 = H0 (|+0>)   vs   H0; CNOT01; CNOT10 : different states, no register renaming maps one to the other
print("is_isomorphic reports equal:", a.compare(b, method="is_isomorphic"), " direct:", a.compare(b, method="direct"))
