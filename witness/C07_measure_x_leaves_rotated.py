"""Witness (run by hand): sfc.measure_x / sfc.measure_y leave the caller's tableau in the rotated frame.

|+> measured in the X basis gives outcome 0 with certainty and must stay |+> (stabilizer +X); the unrepaired code leaves +Z.
(1+i)/sqrt2-phase |+i> measured in the Y basis must stay |+i> (stabilizer +Y)."""
import sys
from graphiq.backends.stabilizer.clifford_tableau import CliffordTableau
import graphiq.backends.stabilizer.functions.transformation as tr
import graphiq.backends.stabilizer.functions.clifford as sfc

bad = []
t = tr.hadamard_gate(CliffordTableau(1), 0)            # |+>
o = sfc.measure_x(t, 0, 0)
s = t.to_stabilizer()
print("measure_x on |+>: outcome", o, "stabilizer x,z,sign =", s.x_matrix.tolist(), s.z_matrix.tolist(), s.phase.tolist())
if (o, s.x_matrix.tolist(), s.z_matrix.tolist(), s.phase.tolist()) != (0, [[1]], [[0]], [0]):
    bad.append("measure_x")
t = tr.phase_gate(tr.hadamard_gate(CliffordTableau(1), 0), 0)   # |+i>
o = sfc.measure_y(t, 0, 0)
s = t.to_stabilizer()
print("measure_y on |+i>: outcome", o, "stabilizer x,z,sign =", s.x_matrix.tolist(), s.z_matrix.tolist(), s.phase.tolist())
if (o, s.x_matrix.tolist(), s.z_matrix.tolist(), s.phase.tolist()) != (0, [[1]], [[1]], [0]):
    bad.append("measure_y")
if bad:
    print("DEFECT:", bad)
    sys.exit(1)
print("ok")
