"""Witness (run by hand): Infidelity.evaluate tests `state.rep_data` where it means the converted `rep_data`.

Stabilizer target |+>|+> with edge (graph state of one edge); the same state held as a graph with mixed=True.  The state is converted
to the stabilizer representation (a one-branch MixedStabilizer), but the second arm of the chain looks at the un-converted
state.rep_data (a Graph), no arm runs and `fid` is unbound."""
import sys
import networkx as nx
from graphiq.state import QuantumState
from graphiq.metrics import Infidelity

g = nx.Graph([(0, 1)])
target = QuantumState(g, rep_type="g")
target.convert_representation("s")
state = QuantumState(g, rep_type="g", mixed=True)
try:
    v = Infidelity(target).evaluate(state, None)
except UnboundLocalError as e:
    print("DEFECT:", type(e).__name__, e)
    sys.exit(1)
print("infidelity =", v)
sys.exit(0 if abs(v) < 1e-9 else 1)
